"""Entry point behind ./check.  Loaded once (never via -m), imports packages by absolute name."""
import os
import sys

HERE = os.path.dirname(os.path.abspath(__file__))
sys.path.insert(0, HERE)
REPO = os.environ.get("VERIF_REPO", "/repo")
sys.path.insert(0, REPO)
sys.dont_write_bytecode = True


def get_spec(prop):
    if prop in ("C01", "C02", "C03", "C04"):
        from props import poolsim
        return poolsim.SPECS[prop]
    if prop == "C05":
        from props import c05
        return c05.SPEC
    if prop == "C14":
        from props import c14
        return c14.SPEC
    if prop == "C11":
        from props import c11
        return c11.SPEC
    if prop == "C12":
        from props import c12
        return c12.SPEC
    if prop == "C18":
        from props import c18
        return c18.SPEC
    if prop == "C20":
        from props import c20
        return c20.SPEC
    raise SystemExit(f"unknown property {prop}")


def main(argv):
    if not argv:
        print("usage: check <PROPERTY> [quick|thorough] | check <PROPERTY> --replay <file> | check selftest <what>")
        return 2
    if argv[0] == "selftest":
        from sim import selftest
        return selftest.main(argv[1:])
    prop = argv[0]
    from sim import runner
    import windpyutils
    root = os.path.dirname(os.path.dirname(os.path.abspath(windpyutils.__file__)))
    if os.path.realpath(root) != os.path.realpath(REPO):
        print(f"HARNESS-ERROR windpyutils imported from {root}, expected {REPO}")
        return 2
    spec = get_spec(prop)
    if len(argv) >= 3 and argv[1] == "--replay":
        return runner.replay_file(spec, argv[2])
    if len(argv) >= 3 and argv[1] == "--seed":
        # debugging aid: one run of one run-seed, printed
        import json
        res = runner.run_in_child(spec, os.environ.get("VERIF_TIER", "quick"), int(argv[2]), trace="--trace" in argv)
        print(json.dumps(res, indent=1, default=repr))
        return 0
    tier = argv[1] if len(argv) > 1 else os.environ.get("VERIF_TIER", "quick")
    if tier not in ("quick", "thorough"):
        print(f"unknown tier {tier}")
        return 2
    seed = int(os.environ.get("VERIF_SEED", "0"))
    max_runs = int(os.environ.get("VERIF_RUNS", "0")) or None
    print(f"VERIF_SEED={seed} property={prop} tier={tier} repo={REPO}")
    sys.stdout.flush()
    return runner.run_check(spec, tier, seed, max_runs=max_runs)


if __name__ == "__main__":
    try:
        code = main(sys.argv[1:])
    except SystemExit:
        raise
    except BaseException:  # noqa
        import traceback
        traceback.print_exc()
        print("HARNESS-ERROR unexpected exception in the check driver")
        code = 2
    sys.stdout.flush()
    sys.exit(code)
