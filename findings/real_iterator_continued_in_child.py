"""Real processes, no simulator: an iteration over a line file that was started in the parent and is
continued in a forked child restarts at the first line, because the child's reopened handle starts
at offset 0 while the iterator goes on reading without a seek (C18)."""
import os
import sys
import tempfile

sys.path.insert(0, sys.argv[1] if len(sys.argv) > 1 else "/repo")
from windpyutils.files import RandomLineAccessFile, MemoryMappedRandomLineAccessFile  # noqa: E402

if __name__ == "__main__":
    bad = 0
    with tempfile.TemporaryDirectory() as d:
        p = os.path.join(d, "f.txt")
        with open(p, "w") as f:
            f.write("".join(f"line{i}\n" for i in range(6)))
        for cls in (RandomLineAccessFile, MemoryMappedRandomLineAccessFile):
            with cls(p) as lf:
                it = iter(lf)
                first = [next(it), next(it)]
                r, w = os.pipe()
                pid = os.fork()
                if pid == 0:
                    os.write(w, ",".join(it).encode())   # the child continues the inherited iteration
                    os._exit(0)
                os.waitpid(pid, 0)
                rest_child = os.read(r, 1000).decode().split(",")
                rest_parent = list(it)
                print(cls.__name__, "parent read", first, "child continued with", rest_child, "parent continued with", rest_parent)
                bad += rest_child != [f"line{i}" for i in range(2, 6)] or rest_parent != rest_child
    sys.exit(4 if bad else 0)
