"""Real processes, no simulator: a reader gets '' for an id whose index entry is already published
while the writer has not written the line yet (C14).  The writer is descheduled between releasing
the lock and writing the line by means of sys.settrace - library code is not modified."""
import faulthandler
import linecache
import multiprocessing
import os
import sys
import tempfile
import time

sys.path.insert(0, sys.argv[1] if len(sys.argv) > 1 else "/repo")
from windpyutils.parallel.storage import TextFileStorage  # noqa: E402

ctx = multiprocessing.get_context("fork")


def tracer(frame, event, arg):
    if "storage.py" not in frame.f_code.co_filename or frame.f_code.co_name != "__setitem__":
        return None

    def local(frame, event, arg):
        if event == "line" and "print(data, file=self._file" in linecache.getline(frame.f_code.co_filename, frame.f_lineno):
            time.sleep(1.0)  # the writer loses the cpu right before it writes the line
        return local
    return local


def writer(storage):
    sys.settrace(tracer)
    with storage:
        storage[0] = "hello world"


def reader(storage, q):
    storage.reader_only = True
    time.sleep(0.5)
    with storage:
        try:
            q.put(repr(storage[0]))
        except IndexError:
            q.put("IndexError")


if __name__ == "__main__":
    faulthandler.dump_traceback_later(20, exit=True)
    with tempfile.TemporaryDirectory() as d:
        s = TextFileStorage(d)
        q = ctx.Queue()
        w = ctx.Process(target=writer, args=(s,))
        r = ctx.Process(target=reader, args=(s, q))
        w.start()
        r.start()
        got = q.get()
        w.join()
        r.join()
        print("concurrent reader got:", got)
        s.flush()
    sys.exit(0 if got in ("IndexError", repr("hello world")) else 4)
