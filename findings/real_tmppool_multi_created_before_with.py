"""Plain Python, no simulator: a multi_proc TmpPool forgets the files that were created before its with statement was
entered (C20: after leaving the context none of the created files exists; the single-process pool keeps them).
Before the repair __enter__ replaced the list of created files by an empty shared list."""
import os
import sys
import tempfile

sys.path.insert(0, sys.argv[1] if len(sys.argv) > 1 else "/repo")
from windpyutils.files import TmpPool  # noqa: E402

if __name__ == "__main__":
    bad = 0
    with tempfile.TemporaryDirectory() as d:
        for multi in (False, True):
            pool = TmpPool(d, multi_proc=multi)
            early = pool.create()
            with pool:
                listed = len(pool)
                inside = pool.create()
            left = [p for p in (early, inside) if os.path.exists(p)]
            print(f"multi_proc={multi}: the pool listed {listed} file(s) on entry (1 expected), left after exit: {len(left)}")
            if listed != 1 or left:
                bad += 1
            for p in left:
                os.remove(p)
    sys.exit(4 if bad else 0)
