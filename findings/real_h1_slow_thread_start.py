"""Real processes, no simulator: FunctorPool.imap yields nothing for a non-empty input when the
feeding thread gets the cpu later than the consumer (C01).  The late start is produced with
threading.settrace (a legal, if slow, thread start) - the library code is not modified."""
import faulthandler
import multiprocessing
import sys
import threading
import time

sys.path.insert(0, sys.argv[1] if len(sys.argv) > 1 else "/repo")
from windpyutils.parallel.own_proc_pools import FunctorPool, BaseFunctorWorker  # noqa: E402

ctx = multiprocessing.get_context("fork")


class W(BaseFunctorWorker, ctx.Process):
    def __init__(self):
        super().__init__(ctx)

    def __call__(self, x):
        return x * 2


def tracer(frame, event, arg):
    if event == "call" and frame.f_code.co_name == "run" and "own_proc_pools" in frame.f_code.co_filename:
        time.sleep(0.5)  # the new thread is slow to reach its first statement
    return None


if __name__ == "__main__":
    faulthandler.dump_traceback_later(20, exit=True)
    threading.settrace(tracer)
    with FunctorPool([W(), W()], context=ctx, work_queue_maxsize=None) as pool:
        res = list(pool.imap([1, 2, 3]))
        print("first call ", res)
        res2 = list(pool.imap([10, 20, 30]))
        print("second call", res2)
    ok = res == [2, 4, 6] and res2 == [20, 40, 60]
    print("OK" if ok else "WRONG")
    sys.exit(0 if ok else 4)
