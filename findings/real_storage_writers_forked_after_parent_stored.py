"""Real processes, no simulator: the parent stores one text and closes the storage, THEN two writer processes are
forked (C14).  Before the repair the children inherited the writer identifier of the parent, all three appended to one
file, and the offsets they published were the stale positions of their own handles: reads return texts of other ids.
The two writers take turns (events), so the outcome does not depend on timing."""
import faulthandler
import multiprocessing
import sys
import tempfile

sys.path.insert(0, sys.argv[1] if len(sys.argv) > 1 else "/repo")
from windpyutils.parallel.storage import TextFileStorage  # noqa: E402

ctx = multiprocessing.get_context("fork")
N = 6


def writer(storage, ids, my_turn, other_turn):
    with storage:
        for g in ids:
            my_turn.wait()
            my_turn.clear()
            storage[g] = f"text of id {g}"
            other_turn.set()


if __name__ == "__main__":
    faulthandler.dump_traceback_later(60, exit=True)
    with tempfile.TemporaryDirectory() as d:
        s = TextFileStorage(d)
        with s:
            s[0] = "stored by the parent"
        a, b = ctx.Event(), ctx.Event()
        ps = [ctx.Process(target=writer, args=(s, range(1, N, 2), a, b)),
              ctx.Process(target=writer, args=(s, range(2, N, 2), b, a))]
        for p in ps:
            p.start()
        a.set()
        for p in ps:
            p.join(20)
        for p in ps:
            if p.is_alive():
                p.terminate()
        expected = ["stored by the parent"] + [f"text of id {g}" for g in range(1, N)]
        got = []
        for g in range(N):
            try:
                got.append(s[g])
            except IndexError:
                got.append(None)
        s.close()
        for g in range(N):
            print(g, repr(got[g]), "" if got[g] == expected[g] else "   <-- expected " + repr(expected[g]))
        s.flush()
        sys.exit(0 if got == expected else 4)
