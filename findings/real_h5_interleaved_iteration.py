"""No simulator, one process: iteration over a line file derails when a random access (or a second
iteration) happens between two next() calls, and ignores a caller-supplied subset index (C11)."""
import os
import sys
import tempfile

sys.path.insert(0, sys.argv[1] if len(sys.argv) > 1 else "/repo")
from windpyutils.files import RandomLineAccessFile, MemoryMappedRandomLineAccessFile  # noqa: E402

if __name__ == "__main__":
    bad = 0
    with tempfile.TemporaryDirectory() as d:
        p = os.path.join(d, "f.txt")
        with open(p, "w") as f:
            f.write("".join(f"line{i}\n" for i in range(6)))
        for cls in (RandomLineAccessFile, MemoryMappedRandomLineAccessFile):
            with cls(p) as lf:
                it = iter(lf)
                got = [next(it)]
                _ = lf[4]               # a random access in between
                got += list(it)
                print(cls.__name__, "iteration with f[4] in between:", got)
                bad += got != [f"line{i}" for i in range(6)]
            with cls(p, [12, 0]) as lf:   # lines 2 and 0 only
                print(cls.__name__, "subset index [line2, line0]: indexing", [lf[0], lf[1]], "iteration", list(lf))
                bad += list(lf) != ["line2", "line0"]
    sys.exit(4 if bad else 0)
