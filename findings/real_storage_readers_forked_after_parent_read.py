"""Real processes, no simulator: the parent reads from the storage (its read handle is open from then on), THEN two
reader processes are forked (C14: "never empty, partial or another id's text").  Before the repair the children read
through the inherited handle, which shares its position with the parent's and with each other's: reader A is
descheduled between seek() and readline() (sys.settrace, library code is not modified) while reader B reads another
id - A then reads at B's position."""
import faulthandler
import linecache
import multiprocessing
import sys
import tempfile

sys.path.insert(0, sys.argv[1] if len(sys.argv) > 1 else "/repo")
from windpyutils.parallel.storage import TextFileStorage  # noqa: E402

ctx = multiprocessing.get_context("fork")
N = 400     # enough lines for several I/O blocks


def text(g):
    return f"text of id {g} " + "x" * (g % 50)


def reader_a(storage, at_readline, go, q):
    def tracer(frame, event, arg):
        if "storage.py" not in frame.f_code.co_filename or frame.f_code.co_name != "__getitem__":
            return None

        def local(frame, event, arg):
            if event == "line" and ".readline()" in linecache.getline(frame.f_code.co_filename, frame.f_lineno):
                at_readline.set()      # seek() is done, readline() is next: this process loses the cpu here
                go.wait(20)
            return local
        return local
    sys.settrace(tracer)
    v = storage[3]
    sys.settrace(None)
    q.put(v)


def reader_b(storage, q):
    q.put(storage[N - 5])


if __name__ == "__main__":
    faulthandler.dump_traceback_later(60, exit=True)
    with tempfile.TemporaryDirectory() as d:
        s = TextFileStorage(d)
        with s:
            for g in range(N):
                s[g] = text(g)
        assert s[0] == text(0)      # the parent reads: its handle for reading stays open
        at_readline, go = ctx.Event(), ctx.Event()
        qa, qb = ctx.Queue(), ctx.Queue()
        pa = ctx.Process(target=reader_a, args=(s, at_readline, go, qa))
        pa.start()
        at_readline.wait(20)
        pb = ctx.Process(target=reader_b, args=(s, qb))
        pb.start()
        got_b = qb.get(timeout=20)
        pb.join()
        go.set()
        got_a = qa.get(timeout=20)
        pa.join()
        s.close()
        print("reader A read id 3:", repr(got_a[:60]))
        print("reader B read id", N - 5, ":", repr(got_b[:60]))
        s.flush()
        sys.exit(0 if got_a == text(3) and got_b == text(N - 5) else 4)
