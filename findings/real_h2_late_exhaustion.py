"""Real processes, no simulator: FunctorPool.imap never returns when the input iterable signals
exhaustion later than the last result is consumed (C02).  Exit code 0 = terminated, 3 = hung."""
import faulthandler
import multiprocessing
import sys
import time

sys.path.insert(0, sys.argv[1] if len(sys.argv) > 1 else "/repo")
from windpyutils.parallel.own_proc_pools import FunctorPool, BaseFunctorWorker  # noqa: E402

ctx = multiprocessing.get_context("fork")


class W(BaseFunctorWorker, ctx.Process):
    def __init__(self):
        super().__init__(ctx)

    def __call__(self, x):
        return x * 2


def slow_end(n):
    for i in range(n):
        yield i
    time.sleep(1.0)  # e.g. a reader that notices EOF late


if __name__ == "__main__":
    faulthandler.dump_traceback_later(15, exit=True)  # a hang ends with a traceback and exit status 1
    n = int(sys.argv[2]) if len(sys.argv) > 2 else 3
    with FunctorPool([W(), W()], context=ctx) as pool:
        res = list(pool.imap(slow_end(n)))
    print("terminated", res)
    sys.exit(0 if res == [i * 2 for i in range(n)] else 4)
