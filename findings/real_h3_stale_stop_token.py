"""Real processes, no simulator: FactoryFunctorPool runs out of workers in a later call when the
replace thread was busy (joining a retiring worker) while the previous call ended (C03): the
thread leaves through stop_event without reading its stop order, the stale None makes the replace
thread of every later call quit at once, retired workers are never replaced."""
import faulthandler
import multiprocessing
import sys
import time

sys.path.insert(0, sys.argv[1] if len(sys.argv) > 1 else "/repo")
from windpyutils.parallel.own_proc_pools import FactoryFunctorPool, BaseFunctorWorker, FunctorWorkerFactory  # noqa: E402

ctx = multiprocessing.get_context("fork")


class W(BaseFunctorWorker, ctx.Process):
    def __init__(self):
        super().__init__(ctx, max_chunks_per_worker=2)

    def __call__(self, x):
        return x * 2

    def end(self):
        time.sleep(1.0)  # releasing resources takes a while


class F(FunctorWorkerFactory):
    def create(self):
        return W()


if __name__ == "__main__":
    faulthandler.dump_traceback_later(25, exit=True)
    with FactoryFunctorPool(2, F(), context=ctx) as pool:
        outs = []
        for c in range(4):
            data = list(range(c * 10, c * 10 + 3))
            outs.append(list(pool.imap(data)))
            print("call", c, outs[-1], flush=True)
    ok = all(o == [x * 2 for x in range(c * 10, c * 10 + 3)] for c, o in enumerate(outs))
    print("OK" if ok else "WRONG")
    sys.exit(0 if ok else 4)
