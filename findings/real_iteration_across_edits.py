"""Plain Python, no simulator: an iteration over a mutable line file that is still clean when it starts does not see the
edits made while it is open (C12: the file acts as a Python list of its lines - a list iterator does see them): an
assignment ahead of the iteration is ignored or raises TypeError (the offset of the line was replaced by the new text),
appended lines are not reached."""
import os
import sys
import tempfile

sys.path.insert(0, sys.argv[1] if len(sys.argv) > 1 else "/repo")
from windpyutils.files import MutableRandomLineAccessFile, MutableMemoryMappedRandomLineAccessFile  # noqa: E402


def trial(cls, index, edit):
    lines = [f"line {i}" for i in range(5)]
    model = list(lines)
    with tempfile.TemporaryDirectory() as d:
        p = os.path.join(d, "f.txt")
        with open(p, "w") as f:
            f.write("\n".join(lines) + "\n")
        offsets = [sum(len(x) + 1 for x in lines[:i]) for i in range(5)]
        with (cls(p, offsets) if index else cls(p)) as f:
            it_f, it_m = iter(f), iter(model)
            got, exp = [next(it_f)], [next(it_m)]
            edit(f)
            edit(model)
            exp += list(it_m)
            try:
                got += list(it_f)
            except Exception as e:  # noqa
                got.append(repr(e))
    return got, exp


def set_ahead(x):
    x[2] = "EDITED"


def append(x):
    x.append("APPENDED")


if __name__ == "__main__":
    bad = 0
    for cls in (MutableRandomLineAccessFile, MutableMemoryMappedRandomLineAccessFile):
        for index in (False, True):
            for edit in (set_ahead, append):
                got, exp = trial(cls, index, edit)
                ok = got == exp
                bad += not ok
                print(f"{cls.__name__:42} {'given index' if index else 'built index'} {edit.__name__:10} "
                      f"{'ok' if ok else 'got ' + str(got[1:]) + ' expected ' + str(exp[1:])}")
    sys.exit(4 if bad else 0)
