"""Real processes, no simulator: the pool context cannot be left when workers retire exactly at the
end of a call and their replacement request reaches the replace queue after the stop order of that
call (C02/C03).  The delay between delivering the last result and posting the request is produced
with sys.settrace inside the worker (a descheduled process) - library code is not modified."""
import faulthandler
import linecache
import multiprocessing
import sys
import time

sys.path.insert(0, sys.argv[1] if len(sys.argv) > 1 else "/repo")
from windpyutils.parallel.own_proc_pools import FactoryFunctorPool, BaseFunctorWorker, FunctorWorkerFactory  # noqa: E402

ctx = multiprocessing.get_context("fork")


def tracer(frame, event, arg):
    if "own_proc_pools" not in frame.f_code.co_filename or frame.f_code.co_name != "run":
        return None

    def local(frame, event, arg):
        if event == "line" and "replace_queue.put(self.wid)" in linecache.getline(frame.f_code.co_filename, frame.f_lineno):
            time.sleep(1.5)  # the worker loses the cpu right here
        return local
    return local


class W(BaseFunctorWorker, ctx.Process):
    def __init__(self):
        super().__init__(ctx, max_chunks_per_worker=1)

    def run(self):
        sys.settrace(tracer)  # takes effect for new frames: the library's run() below is traced
        BaseFunctorWorker.run(self)

    def __call__(self, x):
        return x * 2


class F(FunctorWorkerFactory):
    def create(self):
        return W()


if __name__ == "__main__":
    faulthandler.dump_traceback_later(20, exit=True)
    with FactoryFunctorPool(2, F(), context=ctx, work_queue_maxsize=1) as pool:
        res = list(pool.imap([1, 2]))
        print("call returned", res, flush=True)
    print("pool left")
    sys.exit(0 if res == [2, 4] else 4)
