"""No simulator, one process: iterating a TextFileStorage skips stored ids that lie behind a gap,
because the loop is bounded by the number of stored items instead of the highest id (C14)."""
import os
import sys
import tempfile

sys.path.insert(0, sys.argv[1] if len(sys.argv) > 1 else "/repo")
from windpyutils.parallel.storage import TextFileStorage  # noqa: E402

if __name__ == "__main__":
    with tempfile.TemporaryDirectory() as d:
        s = TextFileStorage(d)
        with s:
            s[0] = "zero"
            s[2] = "two"
            s[5] = "five"
            got = list(s)
            print("list(storage) =", got, " len =", len(s), " contiguous =", s.is_contiguous())
        s.flush()
    sys.exit(0 if got == ["zero", "two", "five"] else 4)
