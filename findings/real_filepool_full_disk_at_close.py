"""Plain Python, no simulator: a FilePool whose first member sits on a full disk (/dev/full: the buffered write succeeds,
the flush inside close() fails with ENOSPC).  Leaving the context may raise that error, but C20 says that all handles
are closed after leaving it, however it is left.  Before the repair close() stopped at the first failing handle: the
others stayed open and the pool kept its handles."""
import os
import sys
import tempfile

sys.path.insert(0, sys.argv[1] if len(sys.argv) > 1 else "/repo")
from windpyutils.files import FilePool  # noqa: E402

if __name__ == "__main__":
    if not os.path.exists("/dev/full"):
        print("no /dev/full on this platform: nothing to demonstrate")
        sys.exit(0)
    with tempfile.TemporaryDirectory() as d:
        paths = ["/dev/full", os.path.join(d, "a.txt"), os.path.join(d, "b.txt")]
        handles = []
        error = None
        pool = FilePool(paths, "w")
        try:
            with pool as p:
                for pth in paths:
                    handles.append(p[pth])
                    p[pth].write("some data")
        except OSError as e:
            error = e
        print("leaving the context raised:", repr(error))
        still_open = [h.name for h in handles if not h.closed]
        print("handles still open:", still_open)
        try:
            pool[paths[1]]
            usable = True
        except RuntimeError:
            usable = False
        print("pool still usable after exit:", usable)
        for h in handles:
            try:
                h.close()
            except OSError:
                pass
        sys.exit(4 if still_open or usable else 0)
