"""No simulator: a mutable line file reports dirty=True after an edit that failed with IndexError
although its content did not change (C12)."""
import os
import sys
import tempfile

sys.path.insert(0, sys.argv[1] if len(sys.argv) > 1 else "/repo")
from windpyutils.files import MutableRandomLineAccessFile  # noqa: E402

if __name__ == "__main__":
    with tempfile.TemporaryDirectory() as d:
        p = os.path.join(d, "f.txt")
        with open(p, "w") as f:
            f.write("a\nb\n")
        with MutableRandomLineAccessFile(p) as lf:
            for attempt in ("set", "del"):
                try:
                    if attempt == "set":
                        lf[10] = "x"
                    else:
                        del lf[10]
                except IndexError:
                    pass
                print(attempt, "out of range ->", "dirty =", lf.dirty, "content", list(lf))
            bad = lf.dirty
    sys.exit(4 if bad else 0)
