"""Real processes, no simulator: a file created by a child process of a multi_proc TmpPool survives
the pool when the parent called flush() after the child was forked: flush() rebinds the shared list
to a new one, the child keeps appending to the old one (C20)."""
import faulthandler
import multiprocessing
import os
import sys
import tempfile

sys.path.insert(0, sys.argv[1] if len(sys.argv) > 1 else "/repo")
from windpyutils.files import TmpPool  # noqa: E402

ctx = multiprocessing.get_context("fork")


def child(pool, go, q):
    go.wait()
    q.put(pool.create())


if __name__ == "__main__":
    faulthandler.dump_traceback_later(30, exit=True)
    with tempfile.TemporaryDirectory() as d:
        go, q = ctx.Event(), ctx.Queue()
        with TmpPool(d, multi_proc=True) as pool:
            p = ctx.Process(target=child, args=(pool, go, q))
            p.start()
            pool.create()
            pool.flush()          # e.g. the end of one processing round
            go.set()
            path = q.get()
            p.join()
            print("child created", os.path.basename(path), "pool lists", len(pool), "file(s)")
        left = os.listdir(d)
        print("left behind after the with block:", left)
    sys.exit(4 if left else 0)
