"""No simulator: the buffered and the memory-mapped line file disagree on content with carriage
returns (C11, open known finding 'universal-newlines')."""
import os
import sys
import tempfile

sys.path.insert(0, sys.argv[1] if len(sys.argv) > 1 else "/repo")
from windpyutils.files import RandomLineAccessFile, MemoryMappedRandomLineAccessFile  # noqa: E402

if __name__ == "__main__":
    with tempfile.TemporaryDirectory() as d:
        p = os.path.join(d, "f.txt")
        with open(p, "wb") as f:
            f.write(b"a\rb\nc\r\nd\n")
        with RandomLineAccessFile(p) as a, MemoryMappedRandomLineAccessFile(p) as b:
            la, lb = [a[i] for i in range(len(a))], [b[i] for i in range(len(b))]
            print("buffered     :", la, "iteration", list(a))
            print("memory-mapped:", lb, "iteration", list(b))
    sys.exit(0 if la == lb == ["a\rb", "c\r", "d"] else 4)
