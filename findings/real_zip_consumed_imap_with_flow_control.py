"""Real processes, no simulator: imap consumed with zip() (every result is taken, StopIteration is never
requested - the idiom of the repository's own tests) hangs when the generator is closed while flow
control has paused the feeding thread: CMThread.stop() sets stop_event and joins, but the thread is
parked in run_event.wait() and nobody sets run_event (C02)."""
import faulthandler
import multiprocessing
import sys
import time

sys.path.insert(0, sys.argv[1] if len(sys.argv) > 1 else "/repo")
from windpyutils.parallel.own_proc_pools import FunctorPool, BaseFunctorWorker  # noqa: E402

ctx = multiprocessing.get_context("fork")


class W(BaseFunctorWorker, ctx.Process):
    def __init__(self):
        super().__init__(ctx)

    def __call__(self, x):
        if x == 0:
            time.sleep(1.5)      # the first chunk is slow: the results behind it pile up in the reorder buffer
        return x * 2


def data():
    yield from range(4)
    time.sleep(0.5)              # the last item comes late: by then flow control has paused the feeder
    yield 4


if __name__ == "__main__":
    faulthandler.dump_traceback_later(20, exit=True)
    with FunctorPool([W(), W(), W()], context=ctx, work_queue_maxsize=None, results_queue_maxsize=3) as pool:
        res = [r for _, r in zip(range(5), pool.imap(data()))]     # zip stops asking after 5 results
        print("zip-consumed imap returned", res, flush=True)
    print("pool left")
    sys.exit(0 if res == [x * 2 for x in range(5)] else 4)
