"""Plain Python, no simulator: a TextFileStorage that was written to, closed and flushed cannot be written to again
by the same process (C14: "flush() removes all files and resets the storage").  Before the repair the process kept the
writer identifier it had before the flush, whose file path no longer exists: IndexError in open()."""
import os
import sys
import tempfile

sys.path.insert(0, sys.argv[1] if len(sys.argv) > 1 else "/repo")
from windpyutils.parallel.storage import TextFileStorage  # noqa: E402

if __name__ == "__main__":
    with tempfile.TemporaryDirectory() as d:
        s = TextFileStorage(d)
        with s:
            s[0] = "first"
        assert s[0] == "first"
        s.close()
        s.flush()
        assert os.listdir(d) == [], os.listdir(d)
        try:
            with s:
                s[0] = "second"
            got = (s[0], len(s), s.is_contiguous())
            s.close()
        except Exception as e:  # noqa
            print("storing into the flushed storage failed:", repr(e))
            sys.exit(4)
        print("after flush and a second store:", got)
        s.flush()
        sys.exit(0 if got == ("second", 1, True) else 4)
