"""C18: one opened line/map file read from many forked processes at once (engine B).

Real: everything - windpyutils.files classes, os.fork, the kernel's open file descriptions, lseek,
read, close, open, mmap.  Simulated: only the order in which the processes execute the source
lines of files.py (lock-step over pipes, seeded director).
"""
import os
import shutil
import sys
import tempfile

from sim.choice import Choice
from sim.lockstep import Actor, ActorDied, Channels, Director
from sim import runner

FILES = ["windpyutils/files.py"]
KINDS = ["RandomLineAccessFile", "MemoryMappedRandomLineAccessFile", "MapAccessFile"]
# subclasses of the line files that read through the same handle (records are loaded from the raw line)
RECORD_KINDS = {"RandomLineAccessFile": "RecordFile", "MemoryMappedRandomLineAccessFile": "MemoryMappedRecordFile"}
MAX_ACTORS = 6


def build_plan(choice: Choice, tier):
    d = choice.draw
    p = {}
    p["kind"] = KINDS[d(5, "kind") % 3]
    p["as_record_file"] = p["kind"] in RECORD_KINDS and d(4, "record.file") == 3
    n = 3 + d(10, "lines")
    p["n_lines"] = n
    p["long"] = d(6, "long") == 5     # lines longer than the 8 KiB buffer
    p["warm"] = [d(n, "warm.i") for _ in range(d(4, "warm"))]
    n_children = 1 + d(4, "children")
    scripts = {}
    next_index = [1]

    def script(depth, may_fork):
        ops = []
        if d(5, "script.kind") == 4 and p["kind"] != "MapAccessFile":
            ops.append(["iter_all"])
        else:
            for _ in range(1 + d(6, "script.len")):
                k = d(10, "op")
                if k in (8, 9) and p["kind"] != "MapAccessFile":
                    # continue the process's iterator (inherited from the parent if one was running at the fork)
                    ops.append(["iter_next", 1 + d(3, "iter.k")])
                elif k == 6:
                    ops.append(["open"])            # documented no-op on an opened object (e.g. `with f:` in a worker)
                elif k == 7:
                    ops.append(["close_open"])      # the process closes its handle and opens the file again
                elif k <= 3 or p["kind"] == "MapAccessFile":
                    ops.append(["get", d(n, "get.i")])
                elif k == 4:
                    a = d(n, "slice.a")
                    ops.append(["slice", a, min(n, a + 1 + d(3, "slice.len"))])
                else:
                    ops.append(["get", -1 - d(n, "get.neg")])
        return ops

    # the parent (actor 0): forks its children at drawn positions of its own script
    parent = script(0, True)
    for c in range(n_children):
        idx = next_index[0]
        next_index[0] += 1
        pos = d(len(parent) + 1, "fork.pos")
        parent.insert(pos, ["fork", idx])
        scripts[idx] = script(1, True)
    # optionally one grandchild
    if d(4, "grandchild") == 3 and next_index[0] < MAX_ACTORS:
        owner = 1 + d(n_children, "grandchild.owner")
        idx = next_index[0]
        next_index[0] += 1
        s = scripts[owner]
        s.insert(d(len(s) + 1, "grandchild.pos"), ["fork", idx])
        scripts[idx] = script(2, False)
    scripts[0] = parent
    # fault: the first open() in one child fails with EMFILE (its first access raises); afterwards the child's
    # accesses may fail, but whatever they return must be the right line
    p["open_fault_actor"] = (1 + d(n_children, "open.fault.actor")) if d(6, "open.fault") == 5 else None
    p["scripts"] = {str(k): v for k, v in sorted(scripts.items())}
    p["stickiness"] = [0.0, 0.3, 0.7, 0.9][d(4, "stickiness")]
    # MapAccessFile: mapping given as a dict, or loaded from a tsv index file (str or int keys)
    p["map_index"] = ["dict", "dict", "file-str", "file-int"][d(4, "map.index")]
    # line files: offsets built by the class, or supplied as a list / an index file
    p["line_index"] = ["built", "built", "list", "file"][d(4, "line.index")]
    return p


def make_raw_record():
    from dataclasses import dataclass
    from windpyutils.files import Record

    @dataclass
    class Raw(Record):
        text: str

        @classmethod
        def load(cls, s):
            return cls(s)

        def save(self):
            return self.text
    return Raw


def unwrap(v):
    """Record files return records: compare their text."""
    if isinstance(v, list):
        return [unwrap(x) for x in v]
    return getattr(v, "text", v)


def make_lines(plan):
    out = []
    for i in range(plan["n_lines"]):
        s = f"line-{i}-" + "abcdefghij"[i % 10] * (3 + (i * 7) % 23)
        if plan["long"] and i % 3 == 1:
            s += "X" * (8192 + 100 * i)
        out.append(s)
    return out


def execute(plan, choice, tmpdir, trace):
    import windpyutils.files as files
    lines = make_lines(plan)
    path = os.path.join(tmpdir, "data.txt")
    with open(path, "w") as f:
        f.write("".join(l + "\n" for l in lines))
    offsets = []
    pos = 0
    for l in lines:
        offsets.append(pos)
        pos += len(l) + 1
    kind = plan["kind"]
    trace_file = files.__file__
    chans = Channels(MAX_ACTORS)
    scripts = {int(k): v for k, v in plan["scripts"].items()}

    st = {"it": None, "pos": 0}     # per-process iterator state: copied by fork together with the iterator itself

    def mkey(i):
        return (1000 + i) if plan.get("map_index") == "file-int" else f"k{i}"

    def do(obj, op):
        if op[0] == "get":
            if kind == "MapAccessFile":
                i = op[1] % len(lines)
                return ["get", i, obj[mkey(i)]]
            return ["get", op[1], unwrap(obj[op[1]])]
        if op[0] == "slice":
            return ["slice", op[1], op[2], unwrap(obj[op[1]:op[2]])]
        if op[0] == "iter_all":
            return ["iter_all", unwrap(list(obj))]
        if op[0] == "iter_next":
            if st["it"] is None:
                st["it"] = iter(obj)
                st["pos"] = 0
            out = []
            for _ in range(op[1]):
                try:
                    v = unwrap(next(st["it"]))
                except StopIteration:
                    v = None
                except BaseException:
                    st["it"] = None      # a generator that raised is finished: the process starts a new one next time
                    raise
                out.append([st["pos"], v])
                st["pos"] += 1
            return ["iter_next", out]
        if op[0] == "open":
            obj.open()
            return ["noop"]
        if op[0] == "close_open":
            # the process gives up its iterator before it closes the handle (continuing an iteration across
            # close()/open() is outside the property: it is not a matter of other processes)
            st["it"] = None
            obj.close()
            obj.open()
            return ["noop"]
        raise ValueError(op)

    real_open = files.open if hasattr(files, "open") else open

    def actor_main(actor: Actor, obj):
        script = scripts[actor.index]
        if plan.get("open_fault_actor") == actor.index:
            state = {"n": 0}

            def failing_open(*a, **kw):
                state["n"] += 1
                if state["n"] == 1:
                    import errno
                    raise OSError(errno.EMFILE, "injected: too many open files")
                return real_open(*a, **kw)
            files.open = failing_open
        for oi, op in enumerate(script):
            actor.stop(f"op{oi}:{op[0]}")
            if op[0] == "fork":
                actor.fork(op[1], lambda a: actor_main(a, obj))
                continue
            try:
                res = actor.traced(lambda: do(obj, op))
            except BaseException as e:  # noqa
                res = ["error", op, repr(e)]
            actor.pending["result"] = res
        actor.finish()

    pid = os.fork()
    if pid == 0:
        # actor 0 = the parent process of the property: opens the file, warms it up, forks children
        try:
            if kind == "MapAccessFile":
                if plan.get("map_index", "dict") == "dict":
                    obj = files.MapAccessFile(path, {mkey(i): o for i, o in enumerate(offsets)})
                else:
                    ip = os.path.join(tmpdir, "map.index")
                    with open(ip, "w") as f:
                        f.write("key\tfile_line_offset\n")
                        for i, o in enumerate(offsets):
                            f.write(f"{mkey(i)}\t{o}\n")
                    obj = files.MapAccessFile(path, ip, int if plan["map_index"] == "file-int" else str)
                if len(obj) != len(lines):
                    raise AssertionError(f"MapAccessFile len {len(obj)} != {len(lines)}")
            else:
                li = plan.get("line_index", "built")
                cls = getattr(files, RECORD_KINDS[kind] if plan.get("as_record_file") else kind)
                pre = (path, make_raw_record()) if plan.get("as_record_file") else (path,)
                if li == "list":
                    obj = cls(*pre, list(offsets))
                elif li == "file":
                    ip = os.path.join(tmpdir, "lines.index")
                    with open(ip, "w") as f:
                        f.write("".join(f"{o}\n" for o in offsets))
                    obj = cls(*pre, ip)
                else:
                    obj = cls(*pre)
            obj.open()
            for i in plan["warm"]:
                _ = obj[mkey(i)] if kind == "MapAccessFile" else obj[i]
            actor_main(Actor(0, chans, trace_file), obj)
        finally:
            os._exit(0)
    director = Director(choice, chans, plan["stickiness"])
    if trace:
        director.trace = []
    err = None
    try:
        director.start(0)
        director.run()
    except ActorDied as e:
        err = str(e)
    finally:
        if err:
            import signal
            try:
                os.kill(pid, signal.SIGKILL)
            except ProcessLookupError:
                pass
        os.waitpid(pid, 0)
        for r, w in chans.cmd + chans.rep:
            os.close(r)
            os.close(w)
    viol = []
    n = len(lines)
    checked = 0

    def norm(v):
        if kind == "MapAccessFile" and isinstance(v, str) and v.endswith("\n"):
            return v[:-1]
        return v

    def short(v):
        return v if not isinstance(v, str) or len(v) < 40 else v[:25] + f"...({len(v)})"

    faulted = set()
    if plan.get("open_fault_actor") is not None:
        # the child with the injected EMFILE and every process it forks afterwards (they inherit its state)
        todo = [plan["open_fault_actor"]]
        while todo:
            a = todo.pop()
            faulted.add(a)
            todo.extend(op[1] for op in scripts.get(a, []) if op[0] == "fork")
    for actor, res in director.results:
        role = "parent" if actor == 0 else "child"
        if res[0] == "error":
            if actor in faulted:
                continue    # after the injected EMFILE the child's accesses may fail; wrong lines still count
            viol.append({"class": "exception", "site": f"{role}:{res[2].split('(')[0]}", "message": f"actor{actor} {res[1]} raised {res[2]}"})
        elif res[0] == "get":
            checked += 1
            exp = lines[res[1]]
            got = norm(res[2])
            if got != exp:
                shape = "empty" if got == "" else ("other-line" if got in lines else "garbage")
                viol.append({"class": "wrong-line", "site": f"{kind}:{shape}",
                             "message": f"actor{actor} ({role}) read index {res[1]}: got {short(got)!r}, expected {short(exp)!r}"})
        elif res[0] == "slice":
            checked += 1
            exp = lines[res[1]:res[2]]
            if res[3] != exp:
                viol.append({"class": "wrong-line", "site": f"{kind}:slice",
                             "message": f"actor{actor} ({role}) slice {res[1]}:{res[2]} got {[short(x) for x in res[3]]}"})
        elif res[0] == "iter_next":
            for pos, v in res[1]:
                checked += 1
                exp = lines[pos] if pos < n else None
                if v != exp:
                    viol.append({"class": "wrong-line", "site": f"{kind}:iterator-continued",
                                 "message": f"actor{actor} ({role}) iterator position {pos}: got {short(v)!r}, expected {short(exp)!r}"})
        elif res[0] == "iter_all":
            checked += 1
            if res[1] != lines:
                viol.append({"class": "wrong-line", "site": f"{kind}:iteration",
                             "message": f"actor{actor} ({role}) iteration got {[short(x) for x in res[1]][:6]}..."})
    seen = set()
    out = []
    for x in viol:
        key = (x["class"], x["site"])
        if key not in seen:
            seen.add(key)
            out.append(x)
    return out, director, err, checked


class Spec:
    PROPERTY = "C18"
    ENGINE = "B: lock-step real fork (real processes advance one traced line of files.py at a time, seeded director)"
    FILES = FILES
    REAL = ["windpyutils.files.RandomLineAccessFile / MemoryMappedRandomLineAccessFile / MapAccessFile",
            "os.fork, kernel open file descriptions, lseek/read/close/open, mmap, the io stack"]
    STUBBED = ["nothing but the order in which the processes take their steps"]
    ASSUMPTIONS = [
        "granularity of interleaving = one source line of windpyutils/files.py (plus operation boundaries)",
        "within one process a script is random accesses/slices or one complete iteration",
        "Linux fork semantics of this sandbox (shared open file description, copied user-space buffer)",
        "sampling, not enumeration",
    ]
    PROBES = ["grandchild", "parent-warm-buffer", "long-lines", "interleaved-seek-read", "iterator-across-fork", "open-fault"]
    RULE = ("one run = drawn class (buffered / memory-mapped / map file), file of unique lines (optionally > 8 KiB), "
            "parent warm-up reads, 1-4 children forked at drawn points of the parent's script (optionally a grandchild), "
            "per-process access scripts, and the seeded order in which the processes execute source lines; non-trivial = "
            "at least two processes alive at once and at least two switches between them; distinct = distinct hash of "
            "the ordered (process, operation boundary / result) sequence among the non-trivial runs")

    def runs(self, tier):
        return 4500 if tier == "quick" else 200000

    def wall_budget(self, tier):
        return 150 if tier == "quick" else 3000

    def prepare(self):
        import windpyutils.files  # noqa

    def run(self, tier, run_seed, replay, trace, emit):
        choice = Choice(run_seed, replay)
        plan = build_plan(choice, tier)
        tmpdir = tempfile.mkdtemp(prefix="verif-c18-")
        try:
            viol, director, err, checked = execute(plan, choice, tmpdir, trace)
        finally:
            shutil.rmtree(tmpdir, ignore_errors=True)
        if err:
            emit({"verdict": "harness-error", "message": f"lock-step engine: {err}; last stops {director.last_at}"})
        probes = {}
        if len(plan["scripts"]) > 2 and any(op[0] == "fork" for k, s in plan["scripts"].items() if k != "0" for op in s):
            probes["grandchild"] = 1
        if plan["warm"]:
            probes["parent-warm-buffer"] = 1
        if plan["long"]:
            probes["long-lines"] = 1
        if director.switches >= 2:
            probes["interleaved-seek-read"] = 1
        if any(op[0] == "iter_next" for op in plan["scripts"]["0"]) and any(
                op[0] == "iter_next" for k2, sc in plan["scripts"].items() if k2 != "0" for op in sc):
            probes["iterator-across-fork"] = 1
        if plan.get("open_fault_actor") is not None:
            probes["open-fault"] = 1
        res = {"verdict": "violation" if viol else "ok", "violations": viol, "digest": director.digest(),
               "signature": director.signature(), "steps": director.step, "switches": director.switches,
               "preemptions": director.switches, "sync_events": len(director.results), "max_live": director.max_live,
               "probes": probes, "strategy": f"sticky{plan['stickiness']}",
               # fired, not merely planned: an access of the chosen child actually failed with the injected error
               "faults": ({"open-EMFILE": n_inj} if (n_inj := sum(1 for _, r in director.results if r[0] == "error" and "injected" in str(r[2]))) else {}),
               "nontrivial": director.max_live >= 2 and director.switches >= 2,
               "plan": plan, "streams": choice.streams(), "end": "complete", "reads_checked": checked}
        if trace:
            res["trace"] = director.trace[-400:]
        emit(res)


SPEC = Spec()
