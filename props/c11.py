"""C11: line files - indexing, slicing, iteration; interleaved clients of one object (engine C).

Real: RandomLineAccessFile, MemoryMappedRandomLineAccessFile, their mutable and record subclasses
(unmodified), the io stack, mmap, real files.  Simulated: which logical client (iterator A, iterator
B, random reader) performs its next public operation; short reads of the raw file behind `open`.
"""
import os
import re
import shutil
import tempfile
from dataclasses import dataclass

from sim.choice import Choice
from sim.coop import CoopScheduler, FaultPlan, make_open
from sim import runner

FILES = ["windpyutils/files.py"]

VARIANTS = ["RandomLineAccessFile", "MemoryMappedRandomLineAccessFile", "MutableRandomLineAccessFile",
            "MutableMemoryMappedRandomLineAccessFile", "RecordFile", "MemoryMappedRecordFile",
            "MutableRecordFile", "MutableMemoryMappedRecordFile"]

PALETTE = ["plain", "", "two words", " lead and trail ", "žluťoučký kůň úpěl", "日本語", "tab\tsep", "x", "ďábelské ódy €",
           "0", "-1", "a,b,c", "\"q\"", "{}",
           # str.splitlines() boundaries that are not line ends of a file
           "vt\x0bff\x0cfs\x1c", "nel\x85ls\u2028ps\u2029"]


def build_content(d, allow_empty, cr_ok):
    kind = d(10, "content.kind")
    if kind == 0 and allow_empty:
        return [], True, False
    n = 1 + d(12, "content.n") if kind != 1 else 1
    many = d(40, "content.many") == 39
    if many:
        # many short lines: line counts around powers of two (block-wise processing of lines)
        n = [4095, 4096, 4097, 8193][d(4, "content.many.n")]
    cr = cr_ok and d(5, "content.cr") == 4
    lines = []
    long_at = d(n, "content.long.at") if d(8, "content.long") == 7 else None
    for i in range(n):
        s = PALETTE[d(len(PALETTE), "content.line")]
        if many:
            s = f"{i}|{s[:6]}"
        elif s != "" or d(2, "content.tag_empty") == 1:
            s = f"{i}|{s}"
        if i == 0 and d(12, "content.bom") == 11:
            s = "\ufeff" + s      # a byte order mark is content like any other character
        if long_at == i:
            s += "L" * (8192 + 700) + "é" * 10
        if cr:
            c = d(4, "content.cr.kind")
            if c == 1:
                s += "\r"              # CRLF file
            elif c == 2:
                s = s + "\rtail" + str(i)  # lone CR inside the line
        lines.append(s)
    # size class: total size around / beyond typical block sizes (8 KiB buffers, 64 KiB read blocks)
    size = d(12, "content.size")
    target = {8: 8192, 9: 65536, 10: 65536 * 2, 11: 65536 + 8192}.get(size)
    if target is not None and lines:
        target += [-1, 0, 1, 17, 4000][d(5, "content.size.off")]
        cur = sum(len(l.encode("utf-8")) + 1 for l in lines)
        spread = d(2, "content.size.spread") == 1
        if cur < target:
            if spread and len(lines) > 1:
                per = (target - cur) // len(lines)
                lines = [l + "p" * per for l in lines]
                cur = sum(len(l.encode("utf-8")) + 1 for l in lines)
            lines[d(len(lines), "content.size.at")] += "P" * max(0, target - cur)
    final_nl = d(3, "content.final_nl") != 0
    if lines and lines[-1] == "" and not final_nl:
        # an unterminated empty last line does not exist: "a\n" + "" is just "a\n"
        final_nl = True
    return lines, final_nl, cr


def build_plan(choice: Choice, tier):
    d = choice.draw
    p = {}
    v = d(len(VARIANTS) + 4, "variant")
    p["variant"] = VARIANTS[v] if v < len(VARIANTS) else VARIANTS[v % 2]   # weight on the two base variants
    mm = "MemoryMapped" in p["variant"]
    lines, final_nl, cr = build_content(d, allow_empty=not mm, cr_ok=True)
    p["lines"] = lines
    p["final_nl"] = final_nl
    p["cr"] = cr
    n = len(lines)
    src = d(7, "index.source")  # 0,1 built; 2 list; 3 index file; 4 subset; 5 permutation; 6 subset+permutation w/ repeats
    sel = list(range(n))
    if src == 4 and n:
        sel = [i for i in sel if d(2, "index.keep") == 1]
        if not sel and d(3, "index.empty.ok") != 2:
            sel = [n - 1]          # an EMPTY selection (a subset that selects no line) is kept in a third of the cases
    elif src == 5 and n:
        for i in range(n - 1, 0, -1):
            j = d(i + 1, "index.shuffle")
            sel[i], sel[j] = sel[j], sel[i]
    elif src == 6 and n:
        sel = [d(n, "index.any") for _ in range(1 + d(n + 2, "index.len"))]
    p["index_source"] = ["built", "built", "list", "file", "subset", "permutation", "multiset"][src]
    p["index_via_file"] = src == 3 or (src >= 4 and d(2, "index.viafile") == 1)
    p["selection"] = sel
    m = len(sel)
    clients = []
    for c in range(1 + d(4, "clients")):
        kind = d(3, "client.kind")
        if kind == 0:
            clients.append({"kind": "iter", "steps": d(m + 3, "iter.steps") + 1, "start_after": d(4, "iter.start_after")})
        else:
            ops = []
            for _ in range(1 + d(6, "rand.ops")):
                o = d(9, "rand.op")
                if o <= 2:
                    ops.append(["int", d(m + 2, "int")])
                elif o == 3:
                    ops.append(["int", -1 - d(m + 2, "negint")])
                elif o == 4:
                    a = d(m + 3, "slice.a") - 1
                    b = d(m + 3, "slice.b") - 1
                    st = [None, 1, 2, -1, -2][d(5, "slice.step")]
                    ops.append(["slice", None if a < 0 else a, None if b < 0 else b, st])
                elif o == 5:
                    ops.append(["list", [d(m, "list.i") - (m if d(4, "list.neg") == 3 else 0) for _ in range(d(4, "list.len"))] if m else [],
                                ["list", "tuple", "generator", "iter", "reversed"][d(5, "list.form")]])
                elif o == 8:
                    ops.append(["reopen"])      # close() + open() of the shared object, possibly while an iteration is suspended
                elif o == 6:
                    ops.append(["len"])
                else:
                    ops.append(["contains_first"])
            clients.append({"kind": "rand", "ops": ops})
    p["clients"] = clients
    sr = d(5, "short.reads")
    p["short_reads"] = {0: "none", 1: "none", 2: "some", 3: "some", 4: "all"}[sr]
    p["short_at"] = sorted({1 + d(12, "short.at") for _ in range(3)}) if p["short_reads"] == "some" else []
    p["stickiness"] = [0.0, 0.5, 0.8][d(3, "stickiness")]
    return p


@dataclass
class _Dummy:
    pass


def make_record_class():
    from windpyutils.files import Record

    @dataclass
    class Raw(Record):
        text: str

        @classmethod
        def load(cls, s):
            return cls(s)

        def save(self):
            return self.text
    return Raw


def reference(plan):
    return [plan["lines"][i] for i in plan["selection"]]


def content_bytes(plan):
    s = "\n".join(plan["lines"])
    if plan["lines"] and plan["final_nl"]:
        s += "\n"
    return s.encode("utf-8")


def offsets_of(plan):
    offs = []
    pos = 0
    for l in plan["lines"]:
        offs.append(pos)
        pos += len(l.encode("utf-8")) + 1
    return offs


def execute(plan, choice, tmpdir, trace):
    import windpyutils.files as files
    path = os.path.join(tmpdir, "data.txt")
    with open(path, "wb") as f:
        f.write(content_bytes(plan))
    offs = offsets_of(plan)
    sel_offs = [offs[i] for i in plan["selection"]]
    fp = FaultPlan()
    if plan["short_reads"] == "all":
        fp.read_short_all = True
    elif plan["short_reads"] == "some":
        fp.read_short = set(plan["short_at"])
    files.open = make_open(fp, lambda p, mode: p == path)
    cls = getattr(files, plan["variant"])
    is_record = "Record" in plan["variant"]
    idx_arg = None
    if plan["index_source"] != "built":
        if plan["index_via_file"]:
            ip = os.path.join(tmpdir, "data.index")
            with open(ip, "w") as f:
                for o in sel_offs:
                    f.write(f"{o}\n")
            idx_arg = ip
        else:
            idx_arg = list(sel_offs)
    sched = CoopScheduler(choice, plan["stickiness"])
    try:
        if is_record:
            Raw = make_record_class()
            obj = cls(path, Raw, idx_arg)
            unwrap = lambda r: r.text  # noqa: E731
        else:
            obj = cls(path, idx_arg)
            unwrap = lambda r: r  # noqa: E731
    except Exception as e:  # noqa
        # no fault is injected that could excuse a failing constructor (short reads are absorbed by the io stack)
        import traceback
        return ([{"class": "exception", "site": f"constructor:{type(e).__name__}",
                  "message": f"{plan['variant']}(...) on a file of {len(content_bytes(plan))} bytes raised {e!r} "
                             + traceback.format_exc()[-400:]}], sched, fp, {"ops": 0, "interleaved_iter_steps": 0})
    ref = reference(plan)
    if trace:
        sched.trace = []
    viol = []
    pieces = set(re.split(r"\r\n|\r|\n", content_bytes(plan).decode("utf-8"))) if plan["cr"] else set()
    custom = plan["index_source"] in ("subset", "permutation", "multiset")
    stats = {"ops": 0, "interleaved_iter_steps": 0}

    def mismatch(op, got, exp, detail):
        if plan["cr"] and isinstance(got, str) and got in pieces and got != exp:
            site = "universal-newlines"
        else:
            if got == "":
                shape = "empty"
            elif isinstance(got, str) and got in plan["lines"]:
                shape = "other-line"
            elif isinstance(got, str) and isinstance(exp, str) and exp.startswith(got):
                shape = "prefix"
            else:
                shape = "garbage"
            site = f"{op}:{shape}:{'custom-index' if custom else 'natural-index'}"
        g = got if not isinstance(got, str) or len(got) < 50 else got[:30] + f"...({len(got)})"
        e = exp if not isinstance(exp, str) or len(exp) < 50 else exp[:30] + f"...({len(exp)})"
        viol.append({"class": "wrong-text", "site": site, "message": f"{detail}: got {g!r}, expected {e!r}"})

    def iter_client(name, spec):
        for _ in range(spec["start_after"]):
            yield "idle"
        it = iter(obj)
        yield "iter()"
        last_step = sched.step
        for n in range(spec["steps"]):
            if sched.step != last_step + 1:
                stats["interleaved_iter_steps"] += 1
            try:
                v = unwrap(next(it))
            except StopIteration:
                if n < len(ref):
                    viol.append({"class": "wrong-text", "site": f"iter:short:{'custom-index' if custom else 'natural-index'}",
                                 "message": f"{name} ended after {n} of {len(ref)} lines"})
                return
            stats["ops"] += 1
            if n >= len(ref):
                viol.append({"class": "wrong-text", "site": "iter:too-long", "message": f"{name} yielded a {n + 1}-th line {v!r}"})
                return
            if v != ref[n]:
                mismatch("iter", v, ref[n], f"{name} line {n}")
            last_step = sched.step
            yield f"next->{n}"

    def rand_client(name, spec):
        for op in spec["ops"]:
            stats["ops"] += 1
            kind = op[0]
            if kind == "int":
                i = op[1]
                try:
                    exp = ref[i]
                    exp_err = False
                except IndexError:
                    exp_err = True
                try:
                    v = unwrap(obj[i])
                    if exp_err:
                        viol.append({"class": "wrong-text", "site": "index:no-indexerror",
                                     "message": f"{name} f[{i}] returned {v!r} for len {len(ref)}"})
                    elif v != exp:
                        mismatch("index", v, exp, f"{name} f[{i}]")
                except IndexError:
                    if not exp_err:
                        viol.append({"class": "exception", "site": "index:IndexError", "message": f"{name} f[{i}] raised IndexError, len {len(ref)}"})
            elif kind == "slice":
                sl = slice(op[1], op[2], op[3])
                exp = ref[sl]
                got = [unwrap(x) for x in obj[sl]]
                if got != exp:
                    if len(got) == len(exp):
                        for g, e in zip(got, exp):
                            if g != e:
                                mismatch("slice", g, e, f"{name} f[{sl}]")
                                break
                    else:
                        viol.append({"class": "wrong-text", "site": "slice:length", "message": f"{name} f[{sl}] has {len(got)} items, expected {len(exp)}"})
            elif kind == "list":
                idxs = op[1]
                form = op[2] if len(op) > 2 else "list"
                if form == "reversed":
                    idxs = list(reversed(idxs))
                exp = [ref[i] for i in idxs]
                # "index iterables select like a list": any iterable of ints, also a one-shot one
                sel = {"list": list(idxs), "tuple": tuple(idxs), "generator": (i for i in idxs), "iter": iter(list(idxs)),
                       "reversed": reversed(list(reversed(idxs)))}[form]
                got = [unwrap(x) for x in obj[sel]]
                if got != exp:
                    for g, e in zip(got, exp):
                        if g != e:
                            mismatch("iterable", g, e, f"{name} f[{idxs}]")
                            break
                    else:
                        viol.append({"class": "wrong-text", "site": "iterable:length", "message": f"{name} f[{idxs}]"})
            elif kind == "reopen":
                obj.close()
                obj.open()
            elif kind == "len":
                if len(obj) != len(ref):
                    viol.append({"class": "wrong-text", "site": "len", "message": f"len={len(obj)} expected {len(ref)}"})
            elif kind == "contains_first":
                if ref and not is_record:
                    # Sequence mixin: 'in' iterates the object
                    got = ref[0] in obj
                    if not got:
                        if plan["cr"]:
                            viol.append({"class": "wrong-text", "site": "universal-newlines",
                                         "message": f"{name} {ref[0]!r} in f is False (content with carriage returns)"})
                        else:
                            mismatch("contains", "<absent>", ref[0], f"{name} ref[0] in f")
            yield kind

    crashed = None
    fds_before = set(os.listdir("/proc/self/fd"))
    try:
        with obj:
            for ci, c in enumerate(plan["clients"]):
                name = f"{c['kind']}{ci}"
                sched.add(name, iter_client(name, c) if c["kind"] == "iter" else rand_client(name, c))
            sched.run()
            # after everything: one clean pass of both kinds (no interleaving) must be exact as well
            final = [unwrap(x) for x in obj]
            if final != ref:
                for n, (g, e) in enumerate(zip(final, ref)):
                    if g != e:
                        mismatch("iter", g, e, f"final pass line {n}")
                        break
                else:
                    viol.append({"class": "wrong-text", "site": "iter:length", "message": f"final pass {len(final)} vs {len(ref)}"})
    except Exception as e:  # noqa
        import traceback
        tb = traceback.format_exc()
        m = re.findall(r'File "[^"]*windpyutils/([^"]+)", line \d+, in (\w+)', tb)
        func = f"{m[-1][1]}" if m else "?"
        crashed = {"class": "exception", "site": f"{type(e).__name__}@{func}", "message": repr(e) + " " + tb[-500:]}
        viol.append(crashed)
    if crashed is None and not viol and len(plan["lines"]) >= 2 and plan["index_source"] == "built":
        # the file is rewritten with other content of the SAME byte size (lines in reversed order) and a NEW object is
        # created for the same path: nothing remembered about the old content may leak into it
        stats["rewritten"] = 1
        lines2 = list(reversed(plan["lines"]))
        body = "\n".join(lines2) + ("\n" if plan["final_nl"] else "")
        if lines2[-1] == "" and not plan["final_nl"]:
            body += "\n"
        with open(path, "wb") as f:
            f.write(body.encode("utf-8"))
        ref2 = body.split("\n")
        if body.endswith("\n") or body == "":
            ref2 = ref2[:-1]
        try:
            obj2 = (cls(path, make_record_class()) if is_record else cls(path))
            with obj2:
                got2 = [unwrap(x) for x in obj2]
                idx2 = [unwrap(obj2[i]) for i in range(len(obj2))]
            if got2 != ref2 or idx2 != ref2:
                viol.append({"class": "wrong-text", "site": "new-object-after-rewrite",
                             "message": f"a new object on the rewritten file (same size) reads {got2[:4]} / {idx2[:4]}, expected {ref2[:4]}"})
        except Exception as e:  # noqa
            viol.append({"class": "exception", "site": f"new-object-after-rewrite:{type(e).__name__}", "message": repr(e)})
    leaked = len(set(os.listdir("/proc/self/fd")) - fds_before)
    if leaked and crashed is None:
        viol.append({"class": "resource", "site": "descriptor-leak",
                     "message": f"{leaked} file descriptors are still open after the file object was closed"})
    seen = set()
    out = []
    for v in viol:
        key = (v["class"], v["site"])
        if key not in seen:
            seen.add(key)
            out.append(v)
    return out, sched, fp, stats


class Spec:
    PROPERTY = "C11"
    ENGINE = "C: cooperative clients of one object stepped by the seeded scheduler; raw-file short reads at the open seam"
    FILES = FILES
    REAL = ["windpyutils.files line-file classes (8 variants)", "io.TextIOWrapper/BufferedReader stack", "mmap", "real files"]
    STUBBED = ["the raw FileIO under files.open for the data file (short reads only)",
               "order in which the logical clients (iterators, random readers) perform their next operation"]
    ASSUMPTIONS = [
        "clients interleave at the granularity of one public operation (next(it), f[i], f[a:b], f[iterable], len)",
        "record variants are exercised with a pass-through Record class (one str field)",
        "file encodings: UTF-8 (the check runs with PYTHONUTF8=1)",
        "sampling, not enumeration",
    ]
    PROBES = ["interleaved-iteration", "custom-index-iteration", "short-read", "long-line", "cr-content", "file-over-64KiB"]
    RULE = ("one run = seeded file content (empty lines, no final newline, multi-byte, >8KiB line, CR/CRLF), variant, "
            "index source (built/list/file/subset/permutation/multiset), 1-4 clients with their operation lists, "
            "short-read plan, plus the seeded interleaving of the clients; non-trivial = at least two clients and at "
            "least one switch between them; distinct = distinct hash of the ordered (client, operation) sequence among "
            "the non-trivial runs")

    def runs(self, tier):
        return 12000 if tier == "quick" else 500000

    def wall_budget(self, tier):
        return 150 if tier == "quick" else 3000

    def prepare(self):
        import windpyutils.files  # noqa

    def run(self, tier, run_seed, replay, trace, emit):
        choice = Choice(run_seed, replay)
        plan = build_plan(choice, tier)
        tmpdir = tempfile.mkdtemp(prefix="verif-c11-")
        from sim.coop import StepCap
        try:
            viol, sched, fp, stats = execute(plan, choice, tmpdir, trace)
        except StepCap:
            shutil.rmtree(tmpdir, ignore_errors=True)
            emit({"verdict": "inconclusive"})
        finally:
            shutil.rmtree(tmpdir, ignore_errors=True)
        probes = {}
        if stats["interleaved_iter_steps"]:
            probes["interleaved-iteration"] = 1
        if plan["index_source"] in ("subset", "permutation", "multiset") and any(c["kind"] == "iter" for c in plan["clients"]):
            probes["custom-index-iteration"] = 1
        if fp.fired.get("short-read"):
            probes["short-read"] = fp.fired["short-read"]
        if any(len(l) > 8192 for l in plan["lines"]):
            probes["long-line"] = 1
        if plan["cr"]:
            probes["cr-content"] = 1
        if sum(len(l.encode("utf-8")) + 1 for l in plan["lines"]) > 65536:
            probes["file-over-64KiB"] = 1
        res = {"verdict": "violation" if viol else "ok", "violations": viol,
               "digest": sched.digest(), "signature": sched.signature(), "steps": sched.step,
               "switches": sched.switches, "preemptions": sched.switches, "sync_events": sched.step,
               "max_live": sched.max_live, "probes": probes, "faults": dict(fp.fired), "strategy": f"sticky{plan['stickiness']}",
               "nontrivial": sched.max_live >= 2 and sched.switches >= 2,
               "plan": plan_short(plan), "streams": choice.streams(), "end": "complete"}
        if trace:
            res["trace"] = sched.trace
        emit(res)


def plan_short(plan):
    p = dict(plan)
    p["lines"] = [l if len(l) < 40 else l[:25] + f"...({len(l)})" for l in plan["lines"]]
    return p


SPEC = Spec()
