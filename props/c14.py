"""C14: TextFileStorage (windpyutils.parallel.storage) inside engine A.

Real: TextFileStorage, the io stack, real files in a private temp directory.
Simulated: Manager (list proxies), multiprocessing.Value / RLock, process creation; optionally the
raw file behind open(..., 'w'/'a') splits every write(2) in two with a yield point in between.
"""
import io
import os
import shutil
import tempfile

from sim.choice import Choice
from sim.kernel import Kernel, make_strategy
from sim.prims import SimContext, _KernelObject
from sim import runner

FILES = ["windpyutils/parallel/storage.py"]


class History(_KernelObject):
    def __init__(self):
        self.ops = []

    def add(self, **kw):
        self.ops.append(kw)


class TornFileIO(io.FileIO):
    """A raw file whose write() is short: the first part now, the rest in the next call (the
    buffered layer retries), with a scheduling point in between.  Optionally the k-th raw write
    of one chosen file fails with EIO / ENOSPC (once, or from then on)."""
    kernel = None
    torn = False
    fail = None          # {"suffix": "_<writer>", "at": k, "persistent": bool}
    writes = {}

    def write(self, b):
        k = TornFileIO.kernel
        f = TornFileIO.fail
        if f is not None and str(self.name).endswith(f["suffix"]):
            c = TornFileIO.writes.get(self.name, 0) + 1
            TornFileIO.writes[self.name] = c
            if c == f["at"] or (f["persistent"] and c > f["at"]):
                k.fault("write-error-persistent" if f["persistent"] else "write-error-transient")
                import errno
                raise OSError(errno.ENOSPC if f["persistent"] else errno.EIO, "injected write error")
        n = len(b)
        if TornFileIO.torn and n >= 2:
            half = n // 2
            w = super().write(bytes(b[:half]))
            k.fault("torn-write")
            k.switch("torn-write", sync=True)
            return w
        return super().write(b)


def build_plan(choice: Choice, tier):
    d = choice.draw
    thorough = tier == "thorough" or d(8, "large.sizes") == 7
    p = {}
    p["writers"] = 1 + d(3, "writers")
    p["readers"] = d(3, "readers")
    n = 1 + d(12 if thorough else 8, "n")
    layout = d(6, "layout")  # 0 contiguous asc, 1 reversed, 2 gaps, 3 shuffled, 4 presized, 5 presized+gaps
    p["many_ids"] = d(60, "many.ids") == 59
    if p["many_ids"]:
        # one writer stores more than a thousand ids in reversed order: id 0 arrives when a long filled stretch is above it
        n = [1030, 2060, 4100][d(3, "many.ids.n")]
        layout = 1
        p["writers"], p["readers"] = 1, 0
    ids = list(range(n))
    if layout in (2, 5):
        ids = [g for g in ids if d(3, "gap") != 2] or [n - 1]
        if 0 in ids and d(2, "gap0") == 1 and len(ids) > 1:
            ids.remove(0)
    order = list(ids)
    if layout == 1:
        order.reverse()
    elif layout >= 2:
        # seeded shuffle through draws
        for i in range(len(order) - 1, 0, -1):
            j = d(i + 1, "shuffle")
            order[i], order[j] = order[j], order[i]
    p["layout"] = layout
    p["presize"] = (max(ids) + 1 + d(3, "presize.extra")) if layout in (4, 5) else None
    p["ids"] = ids
    long_id = order[d(len(order), "long.id")] if d(6, "long") == 5 else None
    scripts = [[] for _ in range(p["writers"])]
    for g in order:
        w = d(p["writers"], "assign")
        scripts[w].append(["store", g, text_of(g, w, long_id == g)])
        if d(8, "dup") == 7:
            w2 = d(p["writers"], "dup.assign")
            scripts[w2].append(["store", g, text_of(g, w2, False) + "-dup"])
    p["writer_scripts"] = scripts
    # after flush(): the storage is used again by a fresh writer process
    p["reuse_after_flush"] = [[g, f"again{g}"] for g in ([0, 1] if d(2, "reuse.two") else [0])] if d(3, "reuse") == 2 else []
    # the writer of the reuse phase may have been forked BEFORE the flush (it opens the storage only afterwards)
    p["reuse_forked_early"] = bool(p["reuse_after_flush"]) and d(2, "reuse.forked.early") == 1
    rs = []
    universe = n + 2
    for r in range(p["readers"]):
        ops = []
        for _ in range(1 + d(6, "reader.ops")):
            kind = d(8, "reader.op")
            if kind <= 4:
                ops.append(["get", d(universe, "reader.id")])
            elif kind == 5:
                ops.append(["len"])
            elif kind == 6:
                ops.append(["list"])
            else:
                ops.append(["get", d(universe, "reader.id")])
        rs.append(ops)
    p["reader_scripts"] = rs
    pops = []
    for _ in range(d(4, "parent.ops")):
        kind = d(4, "parent.op")
        pops.append(["get", d(universe, "parent.id")] if kind <= 1 else (["len"] if kind == 2 else ["list"]))
    p["parent_script"] = pops
    p["file_prefix"] = [None, None, "st", "my.prefix_1"][d(4, "file_prefix")]
    p["torn"] = d(3, "torn") == 2
    # fault family: a store whose text cannot be encoded, and/or a failing disk under one writer
    p["write_fault"] = None
    wf = d(8, "write.fault")
    if wf >= 6:
        p["write_fault"] = {"suffix": f"_{d(p['writers'], 'write.fault.writer')}", "at": 1 + d(4, "write.fault.at"),
                            "persistent": wf == 7}
    if d(8, "unencodable") == 7:
        cands = [(w, i) for w, sc in enumerate(scripts) for i, o in enumerate(sc) if o[0] == "store" and not o[2].endswith("-dup")]
        if cands:
            w, i = cands[d(len(cands), "unencodable.which")]
            scripts[w][i][2] = scripts[w][i][2][:8] + "\udcff-unencodable"
    # writers may also read between their stores: ids of their own (also not the latest one) or of others
    if d(3, "writers.read") == 2:
        for sc in scripts:
            stores = [o for o in sc if o[0] == "store"]
            for _ in range(d(3, "writer.reads")):
                if stores:
                    g = stores[d(len(stores), "writer.read.which")][1] if d(3, "writer.read.own") else d(n + 1, "writer.read.any")
                    sc.insert(1 + d(len(sc), "writer.read.at"), ["get", g])
    for sc in scripts:
        if len(sc) >= 2 and d(5, "reopen") == 4 and not p["write_fault"]:
            sc.insert(1 + d(len(sc) - 1, "reopen.at"), ["reopen"])
    # --- the storage object is used by a process BEFORE other processes are forked from it
    # the parent stores one id of its own (above every other id) and closes - or keeps the storage open - before the
    # writers and readers are forked: every process still needs a file of its own
    p["parent_stores_first"] = [None, "closed", "open"][d(3, "parent.first.mode")] if d(5, "parent.first") == 4 else None
    # reader processes forked AFTER the parent has read (its read handles are open at the fork): 2-3 of them read
    # concurrently with each other and with the parent
    p["late_readers"] = []
    p["readers_open"] = d(2, "readers.open") == 0
    if d(4, "late.readers") == 3:
        stored = [o[1] for sc in scripts for o in sc if o[0] == "store"]
        p["late_parent_reads"] = [stored[d(len(stored), "late.parent.read")] for _ in range(1 + d(3, "late.parent.reads"))]
        for r in range(2 + d(2, "late.readers.n")):
            ops = []
            for _ in range(1 + d(5, "late.reader.ops")):
                ops.append(["list"] if d(8, "late.reader.op") == 7 else ["get", stored[d(len(stored), "late.reader.id")]])
            p["late_readers"].append(ops)
        p["late_parent_more"] = [stored[d(len(stored), "late.parent.more")] for _ in range(d(4, "late.parent.more.n"))]
    # who uses the flushed storage again: a fresh process, a process forked before the flush, a writer that had
    # already stored before the flush (a long-lived worker), or the parent that had stored before
    if p["reuse_after_flush"] and not p["reuse_forked_early"]:
        m = d(4, "reuse.mode")
        p["reuse_mode"] = "same-writer" if m == 2 and not p["write_fault"] else ("parent" if m == 3 and p["parent_stores_first"] and not p["write_fault"] else "fresh")
        p["reuse_competitor"] = p["reuse_mode"] == "same-writer" and d(2, "reuse.competitor") == 1
    else:
        p["reuse_mode"] = "forked-early" if p["reuse_forked_early"] else None
    p["granularity"] = "line" if d(6, "granularity") != 5 else "sync"
    if p["many_ids"]:
        p["parent_stores_first"] = None
        p["late_readers"] = []
        if p["reuse_mode"] in ("same-writer", "parent"):
            p["reuse_mode"] = "fresh"
        p["granularity"] = "sync"
        p["torn"] = False
        p["write_fault"] = None
    p["n"] = n
    return p


SAMPLES = ["plain", "with space ", " lead", "tab\there", "žluťoučký kůň", "a,b;c|d", "\"quoted\"", "x" * 40, "日本語テキスト", "-",
           # characters that str.splitlines() treats as boundaries but that do not end a line of a text file
           "vt\x0bff\x0cfs\x1cgs\x1drs\x1e", "nel\x85ls\u2028ps\u2029end"]


def text_of(g, w, long):
    base = f"id{g}:w{w}:{SAMPLES[(g * 7 + w) % len(SAMPLES)]}"
    if long:
        # longer than any I/O block; every second variant is multi-byte all the way (a block boundary then falls
        # inside a character)
        base += ("L" * 20000) if g % 2 else ("é€" * 7000)
    return base


def run_script(k, storage, script, hist, who):
    for op in script:
        k.switch("op", sync=False)
        a = k.step
        kind = op[0]
        try:
            if kind == "store":
                try:
                    storage[op[1]] = op[2]
                    hist.add(who=who, kind="store", g=op[1], text=op[2], a=a, b=k.step, ok=True)
                except UnicodeEncodeError:
                    k.fault("unencodable-text")
                    hist.add(who=who, kind="store", g=op[1], text=op[2], a=a, b=k.step, ok=None)
                except OSError:
                    hist.add(who=who, kind="store", g=op[1], text=op[2], a=a, b=k.step, ok=None)
                except ValueError:
                    hist.add(who=who, kind="store", g=op[1], text=op[2], a=a, b=k.step, ok=False)
            elif kind == "reopen":
                storage.close()
                storage.open()
                continue
            elif kind == "get":
                try:
                    v = storage[op[1]]
                    hist.add(who=who, kind="get", g=op[1], res=v, a=a, b=k.step)
                except IndexError:
                    hist.add(who=who, kind="get", g=op[1], res=None, a=a, b=k.step)
            elif kind == "len":
                v = len(storage)
                hist.add(who=who, kind="len", res=v, a=a, b=k.step)
            elif kind == "list":
                v = list(storage)
                hist.add(who=who, kind="list", res=v, a=a, b=k.step)
        except Exception as e:  # noqa
            hist.add(who=who, kind=kind, op=op, a=a, b=k.step, error=repr(e))
            raise


def close_tolerant(storage, plan):
    try:
        storage.close()
    except OSError:
        # flushing the data of a failed store fails again on a broken disk (the fault may be under the parent's file)
        if not plan["write_fault"]:
            raise


def scenario(k: Kernel, plan, obs):
    import windpyutils.parallel.storage as st
    ctx = SimContext(k)
    st.Manager = ctx.Manager

    class MP:
        Value = staticmethod(ctx.Value)
        RLock = staticmethod(ctx.RLock)

    st.multiprocessing = MP

    class OsShim:
        """storage.py's view of `os`: everything real, but every simulated process has a process id of its own."""
        def __getattr__(self, name):
            return getattr(os, name)

        @staticmethod
        def getpid():
            return 50_000 + (k.current.proc or 0)

    st.os = OsShim()
    from sim.prims import install_forkable_mmap
    install_forkable_mmap()     # a variant of the storage that memory-maps its files can still be forked
    from sim.prims import install_threading_shims
    from sim.kernel import patch_threading
    patch_threading(k)      # a thread the code under test may start becomes a task of the kernel
    install_threading_shims(k, [st])
    tmp = obs["tmpdir"]
    if plan["torn"] or plan["write_fault"]:
        TornFileIO.kernel = k
        TornFileIO.torn = plan["torn"]
        TornFileIO.fail = plan["write_fault"]
        real_open = open

        def sim_open(path, mode="r", *a, **kw):
            if "w" in mode or "a" in mode:
                raw = TornFileIO(path, mode)
                return io.TextIOWrapper(io.BufferedWriter(raw), encoding=None)
            return real_open(path, mode, *a, **kw)

        st.open = sim_open
    hist = History()
    obs["hist"] = hist
    fds_before = set(os.listdir("/proc/self/fd"))
    if plan.get("file_prefix"):
        storage = st.TextFileStorage(tmp, plan["file_prefix"], number_of_data=plan["presize"])
    else:
        storage = st.TextFileStorage(tmp, number_of_data=plan["presize"])
    obs["storage"] = storage

    class Actor(ctx.Process):
        def __init__(self, storage, script, who, writer, hist=hist, gate=None):
            super().__init__()
            self.gate = gate
            self.hist = hist
            self.storage = storage
            self.script = script
            self.who = who
            self.writer = writer
            self.sim_role = "writer" if writer else "reader"

        second = None       # (script, history, paused event, go event): a long-lived writer that works again after the flush

        def run(self):
            if self.gate is not None:
                self.gate.wait()       # forked early, told to start later
            self.storage.reader_only = not self.writer
            if self.writer or plan.get("readers_open", True):
                self.storage.open()         # a reader need not open the storage: reading opens what it needs
            try:
                run_script(k, self.storage, self.script, self.hist, self.who)
            finally:
                if self.second is not None:
                    self.second[2].set()
                try:
                    self.storage.close()
                except OSError:
                    # flushing the data of a failed store fails again on a broken disk
                    if not plan["write_fault"]:
                        raise
            if self.second is not None:
                script2, hist2, paused, go = self.second
                go.wait()
                try:
                    run_script(k, self.storage, script2, hist2, self.who + "-again")
                finally:
                    self.storage.close()

    if plan.get("parent_stores_first"):
        obs["phase"] = "parent-first"
        storage.open()
        run_script(k, storage, [["store", plan["n"] + 3, "stored by the parent before any fork"]], hist, "parent")
        if plan["parent_stores_first"] == "closed":
            close_tolerant(storage, plan)
    procs = [Actor(storage, s, f"w{i}", True) for i, s in enumerate(plan["writer_scripts"])]
    procs += [Actor(storage, s, f"r{i}", False) for i, s in enumerate(plan["reader_scripts"])]
    persistent = None
    hist2 = History()
    if plan.get("reuse_mode") == "same-writer":
        persistent = procs[0]
        persistent.second = ([["store", g, t] for g, t in plan["reuse_after_flush"]], hist2, ctx.Event(), ctx.Event())
    for p in procs:
        p.start()
    if plan.get("parent_stores_first") == "open":
        close_tolerant(storage, plan)
    storage.reader_only = True
    obs["phase"] = "concurrent"
    run_script(k, storage, plan["parent_script"], hist, "parent")
    for p in procs:
        if p is persistent:
            p.second[2].wait()      # it has finished its first script and closed the storage
        else:
            p.join()
    obs["exitcodes"] = [p.exitcode for p in procs if p is not persistent]
    obs["phase"] = "quiescent"
    q = {}
    with storage:
        q["len"] = len(storage)
        q["contiguous"] = storage.is_contiguous()
        q["list"] = list(storage)
        reads = {}
        for g in (range(plan["n"] + 2) if not plan.get("many_ids") else [0, 1, plan["n"] // 2, plan["n"] - 1, plan["n"]]):
            try:
                reads[g] = storage[g]
            except IndexError:
                reads[g] = None
        q["reads"] = reads
    q["files"] = {}
    for fn in sorted(os.listdir(tmp)):
        with open(os.path.join(tmp, fn), "rb") as f:
            q["files"][fn] = f.read().decode("utf-8", "replace")
    obs["quiescent"] = q
    if plan.get("late_readers"):
        # the parent reads first (its read handles stay open), THEN the reader processes are forked
        obs["phase"] = "late-readers"
        run_script(k, storage, [["get", g] for g in plan["late_parent_reads"]], hist, "parent")
        late = [Actor(storage, sc, f"late-r{i}", False) for i, sc in enumerate(plan["late_readers"])]
        for p in late:
            p.start()
        run_script(k, storage, [["get", g] for g in plan["late_parent_more"]], hist, "parent")
        for p in late:
            p.join()
        obs["exitcodes"] += [p.exitcode for p in late]
        storage.close()
    early = None
    if plan.get("reuse_forked_early"):
        gate = ctx.Event()
        early = Actor(storage, [["store", g, t] for g, t in plan["reuse_after_flush"]], "w-again", True, hist2, gate)
        early.start()          # the fork happens here, before the flush
    obs["phase"] = "flush"
    storage.flush()
    fl = {"files_left": sorted(os.listdir(tmp)), "len": len(storage)}
    with storage:
        r = {}
        for g in (range(plan["n"] + 2) if not plan.get("many_ids") else [0, plan["n"] - 1]):
            try:
                r[g] = storage[g]
            except IndexError:
                r[g] = None
        fl["reads"] = r
        fl["list"] = list(storage)
    obs["flushed"] = fl
    if plan["reuse_after_flush"]:
        obs["phase"] = "reuse"
        TornFileIO.fail = None      # the faults stop before the storage is used again
        exit_code = 0
        if early is not None:
            w = early
            gate.set()
        elif persistent is not None:
            w = persistent
            if plan.get("reuse_competitor") and plan.get("reuse_mode") == "same-writer":
                # another process registers with the flushed storage first: the long-lived writer must not take
                # that process's file for its own
                # ... and goes on storing while the long-lived writer works again
                comp = Actor(storage, [["store", plan["n"] + 7, "stored by a fresh writer after the flush"]], "w-fresh", True, hist2)
                comp.second = ([["store", plan["n"] + 8, "and one more by the fresh writer"]], hist2, ctx.Event(), ctx.Event())
                comp.start()
                comp.second[2].wait()
                comp.second[3].set()
                w.second[3].set()
                comp.join()
            w.second[3].set()
        elif plan.get("reuse_mode") == "parent":
            # the parent had stored before the flush; now it stores into the flushed storage
            w = None
            storage.reader_only = False
            try:
                with storage:
                    run_script(k, storage, [["store", g, t] for g, t in plan["reuse_after_flush"]], hist2, "parent-again")
            except Exception as e:  # noqa
                exit_code = repr(e)
        else:
            w = Actor(storage, [["store", g, t] for g, t in plan["reuse_after_flush"]], "w-again", True, hist2)
            w.start()
        if w is not None:
            w.join()
            exit_code = w.exitcode
        storage.reader_only = True
        with storage:
            ru = {"len": len(storage), "contiguous": storage.is_contiguous(), "list": list(storage), "exit": exit_code,
                  "errors": [o.get("error") for o in hist2.ops if "error" in o]}
            reads = []
            for g, _ in plan["reuse_after_flush"]:
                try:
                    reads.append(storage[g])
                except IndexError:
                    reads.append(None)
            ru["reads"] = reads
        obs["reused"] = ru
    obs["fd_leak"] = len(set(os.listdir("/proc/self/fd")) - fds_before)
    obs["phase"] = "done"


def evaluate(plan, obs, k, kind, info):
    from props.poolsim import stall_site
    if kind == "capped":
        return {"verdict": "inconclusive"}
    viol = []
    hist = obs.get("hist")
    ops = hist.ops if hist else []
    stores = [o for o in ops if o["kind"] == "store" and "error" not in o]
    winners = {}
    failed = {}
    for o in stores:
        if o["ok"] is None:
            failed.setdefault(o["g"], []).append(o)
    for o in stores:
        if o["ok"]:
            if o["g"] in winners:
                viol.append({"class": "duplicate-store", "site": "two-winners",
                             "message": f"id {o['g']} stored twice without ValueError: {winners[o['g']]['text'][:30]!r} and {o['text'][:30]!r}"})
            else:
                winners[o["g"]] = o
    for o in stores:
        if o["ok"] is False and o["g"] not in winners and o["g"] not in failed and kind == "complete":
            viol.append({"class": "duplicate-store", "site": "valueerror-without-winner",
                         "message": f"store of id {o['g']} raised ValueError although nothing is stored under it"})
        if not o["ok"]:
            continue
        # a store that started after a winner completed must have failed
        w = winners.get(o["g"])
        if w is not None and w is not o and w["b"] < o["a"]:
            viol.append({"class": "duplicate-store", "site": "late-duplicate-accepted",
                         "message": f"id {o['g']}"})

    def text(g):
        w = winners.get(g)
        return w["text"] if w else None

    def short(s):
        return s if s is None or len(s) < 60 else s[:40] + f"...({len(s)} chars)"

    for o in ops:
        if "error" in o:
            viol.append({"class": "op-error", "site": f"{o['kind']}:{o['error'].split('(')[0]}",
                         "message": f"{o['who']} {o.get('op')} raised {o['error']}"})
            continue
        if o["kind"] == "get":
            g = o["g"]
            cands = [s for s in stores if s["g"] == g]
            must = any(s["ok"] and s["b"] < o["a"] for s in cands)
            may = any(s["a"] <= o["b"] for s in cands)
            if o["res"] is None:
                if must:
                    viol.append({"class": "wrong-read", "site": "indexerror-after-completed-store",
                                 "message": f"{o['who']} read id {g}: IndexError although its store completed at "
                                            f"step {[s['b'] for s in cands if s['ok']]} < {o['a']}"})
            else:
                exp = text(g)
                if exp is None and g in failed:
                    # only failed stores of g: the read may find nothing or exactly a text that was being stored
                    if o["res"] not in [s["text"] for s in failed[g]]:
                        viol.append(wrong_read(o, g, "?", cands))
                elif exp is None and kind != "complete":
                    # winner may be unknown yet when the run did not complete; compare with any attempt
                    if o["res"] not in [s["text"] for s in cands]:
                        viol.append(wrong_read(o, g, "?", cands))
                elif o["res"] != exp or not may:
                    viol.append(wrong_read(o, g, exp, cands))
        elif o["kind"] == "len":
            lo = len({s["g"] for s in stores if s["ok"] and s["b"] < o["a"]})
            hi = len({s["g"] for s in stores if s["a"] <= o["b"] and s["ok"] is not False})
            if not (lo <= o["res"] <= hi):
                viol.append({"class": "wrong-len", "site": "concurrent",
                             "message": f"{o['who']} len()={o['res']} outside [{lo},{hi}] (steps {o['a']}..{o['b']})"})
        elif o["kind"] == "list":
            must = sorted({s["g"] for s in stores if s["ok"] and s["b"] < o["a"]})
            may = {s["g"] for s in stores if s["a"] <= o["b"]}
            back = {}
            for s in stores:
                if s["ok"] or (s["ok"] is None and s["g"] not in winners):
                    back[s["text"]] = s["g"]
            got_ids = []
            bad = None
            for t in o["res"]:
                if t not in back:
                    bad = t
                    break
                got_ids.append(back[t])
            if bad is not None:
                kindm = "empty" if bad == "" else ("prefix" if any(s["text"].startswith(bad) for s in stores) else "foreign")
                viol.append({"class": "wrong-iteration", "site": f"text:{kindm}",
                             "message": f"{o['who']} list(storage) contains {short(bad)!r} which is no stored text"})
            elif got_ids != sorted(set(got_ids)):
                viol.append({"class": "wrong-iteration", "site": "order",
                             "message": f"{o['who']} list(storage) ids {got_ids} not ascending/unique"})
            elif not set(must) <= set(got_ids):
                viol.append({"class": "wrong-iteration", "site": "missing",
                             "message": f"{o['who']} list(storage) ids {got_ids} lacks completed ids {sorted(set(must) - set(got_ids))}"})
            elif not set(got_ids) <= may:
                viol.append({"class": "wrong-iteration", "site": "invented",
                             "message": f"{o['who']} list(storage) ids {got_ids} has ids never stored"})
    q = obs.get("quiescent")
    if q is not None:
        ids = sorted(winners)
        only_failed = sorted(g for g in failed if g not in winners)
        if only_failed:
            # ids whose only stores failed with an injected error may or may not count as stored
            ftexts = {s["text"] for g in only_failed for s in failed[g]}
            q = dict(q)
            if len(ids) <= q["len"] <= len(ids) + len(only_failed):
                q["len"] = len(ids)
            q["list"] = [t for t in q["list"] if t not in ftexts]
            q["contiguous"] = ids == list(range(len(ids)))
            q["reads"] = {g: (None if (int(g) in only_failed and v in ftexts) else v) for g, v in q["reads"].items()}
        if q["len"] != len(ids):
            viol.append({"class": "wrong-len", "site": "quiescent", "message": f"len()={q['len']} but stored ids={ids}"})
        exp_contig = ids == list(range(len(ids)))
        if q["contiguous"] != exp_contig:
            viol.append({"class": "wrong-contiguous", "site": "quiescent",
                         "message": f"is_contiguous()={q['contiguous']} for ids {ids}"})
        exp_list = [text(g) for g in ids]
        if q["list"] != exp_list:
            got = [short(t) for t in q["list"]]
            site = "missing-behind-gap" if len(q["list"]) < len(exp_list) and q["list"] == exp_list[:len(q["list"])] else "content"
            viol.append({"class": "wrong-iteration", "site": f"quiescent:{site}",
                         "message": f"list(storage)={got} expected texts of ids {ids}"})
        for g, v in q["reads"].items():
            if v != text(int(g)):
                viol.append({"class": "wrong-read", "site": "quiescent",
                             "message": f"storage[{g}]={short(v)!r} expected {short(text(int(g)))!r}"})
        # files: every writer file = its winning lines in its own order; a refused store changes nothing
        per_writer = {}
        for s in stores:
            if s["ok"]:
                per_writer.setdefault(s["who"], []).append(s)
        all_lines = []
        for fn, content in q["files"].items():
            if content:
                all_lines.extend(content.split("\n")[:-1] if content.endswith("\n") else content.split("\n"))
            if content and not content.endswith("\n") and not failed and not plan.get("write_fault"):
                viol.append({"class": "file-content", "site": "unterminated", "message": fn})
        if not failed and sorted(all_lines) != sorted(s["text"] for s in stores if s["ok"]):
            viol.append({"class": "file-content", "site": "lines",
                         "message": f"files hold {len(all_lines)} lines, expected exactly the {len(winners)} stored texts"})
        if any(c != 0 for c in obs.get("exitcodes", [])):
            viol.append({"class": "task-died", "site": "actor", "message": str(k.task_errors[:2])})
    fl = obs.get("flushed")
    if fl is not None:
        if fl["files_left"]:
            viol.append({"class": "flush", "site": "files-left", "message": str(fl["files_left"])})
        if fl["len"] != 0 or fl["list"] or any(v is not None for v in fl["reads"].values()):
            viol.append({"class": "flush", "site": "not-reset", "message": f"after flush: len={fl['len']} list={fl['list']} reads={fl['reads']}"})
    if obs.get("fd_leak") and not failed:
        viol.append({"class": "resource", "site": "descriptor-leak",
                     "message": f"{obs['fd_leak']} file descriptors are still open after every process closed the storage"})
    ru = obs.get("reused")
    if ru is not None:
        exp = [t for _, t in plan["reuse_after_flush"]]
        extra = ["stored by a fresh writer after the flush", "and one more by the fresh writer"] \
            if (plan.get("reuse_competitor") and plan.get("reuse_mode") == "same-writer") else []
        if ru["list"] != exp + extra or ru["reads"] != exp or ru["len"] != len(exp + extra) \
                or ru["contiguous"] is not (not extra) or ru["exit"] != 0:
            viol.append({"class": "flush", "site": "reuse-after-flush",
                         "message": f"storing {exp} into the flushed storage gave {ru}"})
    if kind == "stall":
        viol.append({"class": "stall", "site": stall_site(info), "message": str(info["blocked"])})
    if kind == "crash":
        viol.append({"class": "crash", "site": f"{info.get('exc_type')}@{obs.get('phase')}",
                     "message": info.get("exc", "") + " " + info.get("traceback", "")[-700:]})
    # de-duplicate by (class, site)
    seen = set()
    out = []
    for v in viol:
        key = (v["class"], v["site"])
        if key not in seen:
            seen.add(key)
            out.append(v)
    return {"verdict": "violation" if out else "ok", "violations": out, "stalled": kind == "stall"}


def wrong_read(o, g, exp, cands):
    res = o["res"]
    if res == "":
        shape = "empty"
    elif any(s["text"].startswith(res) and s["text"] != res for s in cands):
        shape = "prefix"
    elif exp is None or exp == "?":
        shape = "never-stored"
    else:
        shape = "other-text"
    r = res if len(res) < 60 else res[:40] + f"...({len(res)} chars)"
    e = exp if exp is None or len(exp) < 60 else exp[:40] + f"...({len(exp)} chars)"
    return {"class": "wrong-read", "site": shape,
            "message": f"{o['who']} read id {g} at steps {o['a']}..{o['b']}: got {r!r}, stored text is {e!r}"}


class Spec:
    PROPERTY = "C14"
    ENGINE = "A: in-process baton kernel, line-level pre-emption via sys.settrace"
    FILES = FILES
    REAL = ["windpyutils.parallel.storage.TextFileStorage", "CPython io stack on real files (private temp dir)"]
    STUBBED = ["multiprocessing.Manager list proxies (per-call atomic)", "multiprocessing.Value / RLock",
               "process creation (kernel task on a fork-like copy of the storage; an open file is copied as os.dup() of its "
               "descriptor: same open file description, own buffers)", "os.getpid() inside storage.py (one id per simulated process)",
               "raw file behind open(.., 'w'/'a') in the torn-write family (short writes + yield point)"]
    ASSUMPTIONS = [
        "a simulated process = a task holding a fork-like copy of the storage object (shared index/counters/lock; "
        "handles that are open at the fork share their file position with the parent's, as after fork(2)); mostly "
        "forked before the first use, as in the test-suite, but also after the parent has stored or read",
        "pre-emption at every source line of storage.py and every proxy / Value / lock operation",
        "texts are single-line; is_contiguous() is judged at quiescence only",
        "sampling, not enumeration",
    ]
    PROBES = ["iteration-over-gap", "torn-write", "failed-store"]
    RULE = ("one run = seeded plan (writers, readers, id layout incl. gaps/reversed/pre-sized/duplicates, assignment "
            "of ids to writers, reader and parent scripts, torn writes on/off) plus seeded schedule; non-trivial = two "
            "tasks runnable at once and one pre-emption; distinct = distinct sync-order signature among those runs")

    def runs(self, tier):
        return 9000 if tier == "quick" else 300000

    def wall_budget(self, tier):
        return 150 if tier == "quick" else 3000

    def prepare(self):
        import windpyutils.parallel.storage  # noqa

    def run(self, tier, run_seed, replay, trace, emit):
        choice = Choice(run_seed, replay)
        plan = build_plan(choice, tier)
        est = 200 + 120 * sum(len(s) for s in plan["writer_scripts"])
        strategy = make_strategy(choice, est)
        tmpdir = tempfile.mkdtemp(prefix="verif-c14-")
        obs = {"phase": "init", "tmpdir": tmpdir}

        def on_end(kind, info):
            if kind == "unsupported":
                emit({"verdict": "harness-error", "message": "simulated environment lacks something the code asked for: "
                      + str(info.get("exc"))})
            res = evaluate(plan, obs, k, kind, info)
            probes = dict(k.probes)
            if "torn-write" in k.faults:
                probes["torn-write"] = k.faults["torn-write"]
            ids = plan["ids"]
            if ids != list(range(len(ids))):
                probes["iteration-over-gap"] = 1
            hist = obs.get("hist")
            if hist and any(o.get("kind") == "store" and o.get("ok") is None for o in hist.ops):
                probes["failed-store"] = 1
            res.update({
                "digest": k.digest(), "signature": k.signature(), "steps": k.step, "switches": k.switches,
                "preemptions": k.preemptions, "sync_events": k.sync_events, "max_live": k.max_live, "abstract_states": sorted(k.abstract_states),
                "probes": probes, "faults": k.faults, "strategy": strategy.name,
                "nontrivial": k.max_live >= 2 and k.preemptions >= 1,
                "plan": {**plan_short(plan), "strategy": strategy.describe()}, "streams": choice.streams(),
                "end": kind, "end_info": info if kind != "complete" else None,
            })
            if trace:
                from props.poolsim import compress_trace
                res["trace"] = compress_trace(k.trace_events)
            shutil.rmtree(tmpdir, ignore_errors=True)
            emit(res)

        k = Kernel(choice, strategy, on_end, trace_root=os.path.join(runner.REPO_ROOT, "windpyutils"),
                   granularity=plan["granularity"])
        if trace:
            k.trace_events = []
        k.run(lambda: scenario(k, plan, obs))


def plan_short(plan):
    p = dict(plan)
    p["writer_scripts"] = [[o if o[0] != "store" else [o[0], o[1], o[2] if len(o[2]) < 50 else o[2][:30] + f"...({len(o[2])})"]
                            for o in s] for s in plan["writer_scripts"]]
    return p


SPEC = Spec()
