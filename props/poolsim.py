"""Workload, observation and oracles for C01-C04: the real FunctorPool / FactoryFunctorPool
(windpyutils.parallel.own_proc_pools) driven inside engine A.

One scenario runner, four oracle selections (one per property).
"""
import math
import os
import re
import sys

from sim.choice import Choice
from sim.kernel import Kernel, make_strategy, patch_threading
from sim.prims import SimContext, ThreadingShim, _KernelObject, SimManagerQueue
from sim import runner

FILES = ["windpyutils/parallel/own_proc_pools.py", "windpyutils/buffers.py"]

ANCHOR_PATTERNS = {
    "cond": r"while self\._sending_work or finished_cnt < self\._data_cnt",
    "owed.test": r"^\s+if finished_cnt < self\._data_cnt:",
    "owed.wait": r"send_thread\.progress_event\.wait\(\)",
    "feeder.init": r"self\.pool\._sending_work = True",
    "feeder.put": r"self\.pool\._work_queue\.put\(\(i, chunk\)\)",
    "feeder.cnt": r"self\.pool\._data_cnt \+= 1",
    "feeder.done": r"self\.pool\._sending_work = False",
    "get.blocking": r"res_i, res_chunk = self\._results_queue\.get\(\)",
    "get.batch": r"res_i, res_chunk = self\._results_queue\.get\(block=False\)",
    "worker.full_fallback": r"^\s+self\.results_queue\.put\(res\)\s*$",
    "worker.retire": r"self\.replace_queue\.put\(self\.wid\)",
    "flow.pause": r"send_thread\.run_event\.clear\(\)",
    "replace.get": r"replace_id = self\.pool\._replace_queue\.get\(\)",
    "replace.start": r"self\.pool\.procs\[replace_index\]\.start\(\)",
}


def find_anchors(repo_root):
    path = os.path.join(repo_root, "windpyutils/parallel/own_proc_pools.py")
    out = {}
    try:
        lines = open(path, encoding="utf-8").read().split("\n")
    except OSError:
        return out
    for name, pat in ANCHOR_PATTERNS.items():
        rx = re.compile(pat)
        for i, l in enumerate(lines, 1):
            if rx.search(l):
                out[(path, i)] = name
    return out


class Recorder(_KernelObject):
    def __init__(self, kernel):
        self.k = kernel
        self.events = []  # (step, task name, kind, detail)

    def __call__(self, kind, detail=None):
        self.events.append((self.k.step, self.k.current.name, kind, detail))


class Boom(Exception):
    pass


def _noop():
    pass


class BodyError(Exception):
    pass


def make_exc(kind, what):
    if kind == "SystemExit":
        return SystemExit(f"Boom {what}")
    if kind == "KeyboardInterrupt":
        return KeyboardInterrupt(f"Boom {what}")
    return Boom(what)


def f_of(x):
    return (x[0], x[1], "r")


# ----------------------------------------------------------------------------------------
# plan

ITEM_CHOICES = [0, 1, 2, 3, 4, 5, 6, 7, 8, 10, 12]


def build_plan(choice: Choice, tier: str, family: str):
    """family: 'single' (C01, C02), 'multi' (C03), 'lifecycle' (C04)"""
    p = {"family": family}
    d = choice.draw
    # a quarter of the quick runs use the larger sizes of the thorough tier (more workers, calls, items)
    thorough = tier == "thorough" or d(4, "large.sizes") == 3
    if family == "single":
        p["factory"] = d(3, "factory") == 2
    else:
        p["factory"] = d(4, "factory") != 0
    p["workers"] = 1 + d(6 if thorough else 4, "workers")
    wq = [1.0, None, 1, 2, 3, 0.5, 2.0][d(7, "wq_max")]
    p["wq_max"] = wq
    p["rq_max"] = [None, 1, 2, 3, 1.0][d(5, "rq_max")]     # a float means int(workers * x)
    # which worker base class: BaseFunctorWorker + context.Process (as the test-suite's fork/spawn workers), or the
    # library's FunctorWorker (default context); with the latter the pool may be built with context=None
    p["worker_base"] = ["base", "base", "FunctorWorker"][d(3, "worker.base")]
    p["default_context"] = p["worker_base"] == "FunctorWorker" and d(2, "default.context") == 1
    if p["factory"]:
        p["quota"] = [math.inf, 1, 2, 3][d(4, "quota")]
        if family != "lifecycle" and p["quota"] != math.inf and d(6 if family == "multi" else 12, "quota.fraction") == 5:
            p["quota"] += 0.5       # the parameter is a float: a fractional quota retires after ceil(quota) chunks
    else:
        p["quota"] = math.inf
    # every call has exactly quota x workers chunks, so ALL workers retire exactly at the end of every call, and the work
    # queue is bounded by a small integer (the stop orders of __exit__ do not fit unless workers take them)
    p["tail_retire"] = family != "single" and p["quota"] != math.inf and d(3, "tail.retire") == 2
    if p["tail_retire"]:
        p["wq_max"] = [1, 0.5, 2, 1][d(4, "tail.retire.wq")]
    # join_timeout (C03 only): a retiring worker that is slow to exit must still be replaced
    p["join_timeout"] = 1 if d(6 if family == "multi" else 10, "join_timeout") == 5 else None
    # how many timeouts may expire although another task could still run (a slow machine): 0-3
    p["early_timeouts"] = [0, 0, 1, 3][d(4, "early.timeouts")] if p["join_timeout"] else 0
    # a factory whose create() is slow (yield / defer): replacements appear late
    p["create_pause"] = [0, 0, 0, 1, 2][d(5, "create.pause")] if p["factory"] else 0
    if family == "single":
        # mostly one call per pool; a quarter of the runs make a second call so that per-call state that
        # survives a call is also seen by the single-call properties
        n_calls = 2 if d(4, "calls.single") == 3 else 1
    else:
        n_calls = 1 + d(6 if thorough else 4, "calls")
    calls = []
    for c in range(n_calls):
        call = {}
        call["ordered"] = d(3, "ordered") != 2
        call["chunk"] = 1 + d(5, "chunk")
        kind = d(8, "items.kind")
        if kind == 0:
            n = d(2, "items.small")  # 0 or 1
        elif kind == 1:
            n = max(0, call["chunk"] * (1 + d(3, "items.mult")) + d(3, "items.off") - 1)
        elif kind == 2 and p["quota"] != math.inf:
            # retirement exactly at the end of the call: chunks == quota * workers
            n = call["chunk"] * int(math.ceil(p["quota"])) * p["workers"]
        else:
            n = ITEM_CHOICES[d(len(ITEM_CHOICES), "items")] if not thorough else d(41, "items")
        n = min(n, 40 if thorough else 16)
        if p["tail_retire"]:
            chunks = int(math.ceil(p["quota"])) * p["workers"]
            if call["chunk"] * chunks > (40 if thorough else 16):
                call["chunk"] = 1
            n = call["chunk"] * chunks
        if c == 0 and d(24, "items.many") == 23 and not p["tail_retire"]:
            # a long call with single-item chunks: more chunks in flight than any small constant bound
            n = [65, 130, 260][d(3, "items.many.n")]
            call["chunk"] = 1
        call["n"] = n
        lazy = d(3, "lazy")
        call["lazy"] = lazy != 0
        # type of a non-lazy input: any finite iterable must do
        call["input_type"] = ["list", "tuple", "iterator", "range-like", "list", "deque", "int-only-sequence"][d(7, "input.type")]
        # 'exact': the caller takes exactly len(data) results (zip / islice style), never asks for StopIteration and
        # drops the generator afterwards
        call["consume"] = "exact" if d(6, "consume") == 5 else "full"
        call["item_type"] = "list" if d(5, "item.type") == 4 else "tuple"
        # with 'exact': the generator may stay alive and be closed only while the NEXT call is running
        # (closing the generator only while the NEXT call is running was tried and dropped: an unclosed generator means
        # that the call is still in progress - its feeding and replace threads are alive - so the next call overlaps it,
        # which no property covers; the original code misbehaves there in several ways)
        call["late_close"] = False
        call["pause_items"] = []
        call["pause_stop"] = 0
        if call["lazy"]:
            for i in range(n):
                if d(4, "pause.item") == 3:
                    call["pause_items"].append(i)
            call["pause_stop"] = d(3, "pause.stop")  # 0 none, 1 yield, 2 defer (as late as possible)
            call["defer_items"] = d(4, "defer.items") == 3
            # feedback: the input produces the first item of the next chunk only after every result of the chunks
            # sent so far has been consumed by the caller (a pipeline that feeds on its own output)
            call["feedback"] = d(6, "feedback") == 5
        calls.append(call)
    p["calls"] = calls
    p["verbose"] = d(8, "verbose") == 7     # the pool's information messages switched on
    p["functor_pause"] = d(3, "functor.pause")      # 0 none, 1 yield, 2 defer on some items
    # a functor that uses a short-lived child process of its own for some items (a helper process, a nested map)
    p["functor_child"] = d(12, "functor.child") == 11
    p["consumer_pause"] = d(3, "consumer.pause")    # 0 none, 1 yield between next(), 2 defer sometimes
    # asynchronous queues (if the code uses any for its control messages) deliver late; always in the tail-retirement plans
    p["pipe_delay"] = d(2, "pipe.delay") == 1 or p["tail_retire"]
    g = d(10 if thorough else 20, "granularity")
    p["granularity"] = "sync" if g in (1, 2) else ("opcode" if g == 3 else "line")
    p["until_ready"] = 0
    p["begin_raises"] = None
    p["functor_raises"] = None
    p["begin_pause"] = [0, 0, 1, 2][d(4, "begin.pause")]     # 0 none, 1 yield, 2 defer (a slow begin())
    p["body_raises"] = None
    p["raise_kind"] = "Boom"
    p["end_pause"] = d(4, "end.pause")      # 0,1 none; 2 yield; 3 defer (a slow end())
    p["plain_quota"] = None
    if family == "lifecycle":
        if not p["factory"] and d(3, "plain.quota") == 2:
            # a quota on the workers of a plain FunctorPool (nobody replaces them): enough capacity for all chunks
            # and an unbounded work queue, so that the stop orders of __exit__ always fit
            chunks = sum(-(-c["n"] // c["chunk"]) for c in calls)
            p["plain_quota"] = max(1, -(-chunks // p["workers"])) + d(2, "plain.quota.extra")
            p["wq_max"] = None
        fk = d(5, "fault.kind")
        if fk == 3 and p["workers"] >= 2:
            p["begin_raises"] = d(p["workers"], "fault.begin.wid")
        elif fk == 4:
            tot = [(c, i) for c, call in enumerate(calls) for i in range(call["n"])]
            if tot:
                p["functor_raises"] = list(tot[d(len(tot), "fault.functor.item")])
        if p["begin_raises"] is None and p["functor_raises"] is None:
            p["until_ready"] = d(5, "until_ready")  # 0 never, 1 at start, 2 between calls, 3 both, 4 inside the result loops
        else:
            p["plain_quota"] = None     # a dead worker would take its share of the capacity with it
            if p["begin_raises"] is not None and d(3, "until_ready.with.dead") == 2:
                # until_all_ready() with a worker that dies in begin(): it can never return (that worker's begin() never
                # completes) - the stall is expected; what must not happen is a return while another begin() still runs
                p["until_ready"] = 1
            # what is raised: an ordinary exception, or a BaseException that is not an Exception
            p["raise_kind"] = ["Boom", "Boom", "SystemExit", "KeyboardInterrupt"][d(4, "fault.raise_kind")]
        if p["begin_raises"] is None and p["functor_raises"] is None and d(5, "body.raises") == 4:
            # the with-body of the pool raises: before any call (0) or after the last one (1)
            p["body_raises"] = d(2, "body.raises.when")
    return p


# ----------------------------------------------------------------------------------------
# scenario

def scenario(k: Kernel, plan, obs):
    import windpyutils.parallel.own_proc_pools as opp
    from windpyutils.parallel.own_proc_pools import (BaseFunctorWorker, FunctorPool, FactoryFunctorPool,
                                                      FunctorWorkerFactory)
    ctx = SimContext(k, pipe_delay=plan["pipe_delay"])
    obs["ctx"] = ctx
    import windpyutils.buffers as buffers_mod
    opp.threading = ThreadingShim(k)
    buffers_mod.threading = opp.threading
    patch_threading(k)
    rec = Recorder(k)
    obs["rec"] = rec
    fpause = plan["functor_pause"]
    raises = tuple(plan["functor_raises"]) if plan["functor_raises"] else None
    begin_raises = plan["begin_raises"]

    class MPShim:
        """`multiprocessing` as the module under test sees it: the default context is the simulated one."""

        def get_context(self, method=None):
            return ctx

        # module-level constructors belong to the default context, which is the simulated one
        def Queue(self, maxsize=0):
            return ctx.Queue(maxsize)

        def SimpleQueue(self):
            return ctx.SimpleQueue()

        def Lock(self):
            return ctx.Lock()

        def RLock(self):
            return ctx.RLock()

        def Event(self):
            return ctx.Event()

        def Manager(self):
            return ctx.Manager()

        def __getattr__(self, name):
            import multiprocessing as _mp
            return getattr(_mp, name)

    opp.multiprocessing = MPShim()
    from sim.prims import make_popen
    opp.FunctorWorker._Popen = make_popen(k)

    class Behaviour:
        sim_role = "worker"

        def begin(self):
            rec("begin", self.wid)
            if plan["begin_pause"] == 1:
                k.switch("begin.pause")
            elif plan["begin_pause"] == 2:
                k.fault("slow-begin")
                k.defer("begin.defer")
            if begin_raises is not None and self.wid == begin_raises:
                k.fault("begin-raises")
                rec("begin!", self.wid)
                raise make_exc(plan["raise_kind"], "begin")
            rec("begin_done", self.wid)

        def __call__(self, x):
            rec("item", x)
            if fpause == 1:
                k.switch("functor.pause")
            elif fpause == 2 and (x[1] % 3 == 0):
                k.defer("functor.defer")
                k.fault("slow-functor")
            x = tuple(x)
            if plan.get("functor_child") and x[1] % 4 == 0:
                k.fault("functor-starts-a-child-process")
                helper = ctx.Process(target=_noop)
                helper.sim_role = "helper"
                helper.start()
                helper.join()
            if raises is not None and tuple(x) == raises:
                k.fault("functor-raises")
                rec("item!", x)
                raise make_exc(plan["raise_kind"], "functor")
            return f_of(x)

        def end(self):
            rec("end", self.wid)
            if plan["end_pause"] == 2:
                k.switch("end.pause")
            elif plan["end_pause"] == 3:
                k.fault("slow-end")
                k.defer("end.defer")
            rec("end_done", self.wid)

    if plan.get("worker_base") == "FunctorWorker":
        class Worker(Behaviour, opp.FunctorWorker):
            def __init__(self, quota):
                opp.FunctorWorker.__init__(self, quota)
    else:
        class Worker(Behaviour, BaseFunctorWorker, ctx.Process):
            def __init__(self, quota):
                BaseFunctorWorker.__init__(self, ctx, quota)

    class Factory(FunctorWorkerFactory):
        def create(self):
            if plan.get("create_pause") == 1:
                k.switch("create.pause")
            elif plan.get("create_pause") == 2 and k.current.role != "main":
                k.fault("slow-create")
                k.defer("create.defer")
            return Worker(plan["quota"])

    kw = {"context": None if plan.get("default_context") else ctx, "work_queue_maxsize": plan["wq_max"],
          "results_queue_maxsize": plan["rq_max"]}
    if plan.get("join_timeout"):
        kw["join_timeout"] = plan["join_timeout"]
    if plan.get("verbose"):
        # information messages on: whatever the pool prints goes nowhere (this process is the private child of one run)
        kw["verbose"] = True
        import sys as _sys
        _sys.stdout = _sys.stderr = open(os.devnull, "w")
    if plan["factory"]:
        pool = FactoryFunctorPool(plan["workers"], Factory(), **kw)
    else:
        q = plan["plain_quota"] if plan.get("plain_quota") else math.inf
        pool = FunctorPool([Worker(q) for _ in range(plan["workers"])], **kw)
    obs["pool"] = pool

    def data_iter(c, call):
        pauses = set(call["pause_items"])
        for i in range(call["n"]):
            if call.get("feedback") and i and i % call["chunk"] == 0:
                need = i
                k.fault("input-waits-for-results")
                while len(obs["outs"][c]) < need:
                    k.block(lambda: len(obs["outs"][c]) >= need, ("input", "feedback"))
            if i in pauses:
                if call.get("defer_items"):
                    k.defer("input.defer")
                    k.fault("late-item")
                else:
                    k.switch("input.pause")
                    k.fault("input-yield")
            yield ([c, i] if call.get("item_type") == "list" else (c, i))
        if call["pause_stop"] == 1:
            k.fault("input-yield-before-exhaustion")
            k.switch("input.pause.stop")
        elif call["pause_stop"] == 2:
            k.fault("late-exhaustion")
            k.defer("input.defer.stop")

    def leftovers():
        out = []
        for m in ctx.managers:
            for q in m.objects:
                if isinstance(q, SimManagerQueue):
                    for e in q.peek_all():
                        if is_result_payload(e):
                            out.append(e)
        return out

    obs["phase"] = "enter"
    try:
        run_body(k, plan, obs, pool, rec, data_iter, leftovers)
    except BodyError:
        obs["body_error_propagated"] = True
    obs["phase"] = "exited"
    obs["unfinished_at_exit"] = [t.name for t in k.unfinished() if t.kind == "process"]
    obs["unfinished_threads_at_exit"] = [t.name for t in k.unfinished() if t.kind == "thread"]


def run_body(k, plan, obs, pool, rec, data_iter, leftovers):
    with pool:
        obs["phase"] = "inside"
        if plan.get("body_raises") == 0:
            k.fault("with-body-raises")
            obs["phase"] = "exiting"
            raise BodyError("body raised before any call")
        if plan["until_ready"] in (1, 3):
            ready_call(k, pool, rec)
        pending_close = []
        for c, call in enumerate(plan["calls"]):
            out = []
            obs["outs"].append(out)
            obs["call_state"].append("running")
            data = data_iter(c, call) if call["lazy"] else typed_input(c, call)
            gen = (pool.imap if call["ordered"] else pool.imap_unordered)(data, call["chunk"])
            if call.get("consume") == "exact":
                inner, gen = gen, take_exact(gen, call["n"])
            cp = plan["consumer_pause"]
            for v in gen:
                out.append(v)
                if pending_close and len(out) >= 1:
                    k.fault("previous-generator-closed-late")
                    pending_close.pop().close()
                if plan["until_ready"] == 4 and len(out) in (1, 3):
                    ready_call(k, pool, rec)
                if cp == 1:
                    k.switch("consumer.pause")
                elif cp == 2 and len(out) % 2 == 1:
                    k.defer("consumer.defer")
                    k.fault("slow-consumer")
            while pending_close:
                pending_close.pop().close()
            if call.get("consume") == "exact":
                # the caller is done with the generator: dropping it closes it (the with blocks inside unwind here)
                gen = None
                if call.get("late_close") and c + 1 < len(plan["calls"]):
                    pending_close.append(inner)
                else:
                    inner.close()
                inner = None
            obs["call_state"][c] = "done"
            obs["leftover"].append(leftovers())
            obs["live_after_call"].append(sum(1 for p in pool.procs if p._popen is not None and p._popen.poll() is None))
            k.note(f"call {c} done n={len(out)}")
            if plan["until_ready"] in (2, 3) and c + 1 < len(plan["calls"]):
                ready_call(k, pool, rec)
        obs["phase"] = "exiting"
        if plan.get("body_raises") == 1:
            k.fault("with-body-raises")
            raise BodyError("body raised after the last call")


class RangeLike:
    """An iterable that is neither a list nor a generator: only __iter__ (a fresh iterator each time)."""

    def __init__(self, c, n):
        self.c, self.n = c, n

    def __iter__(self):
        return iter([(self.c, i) for i in range(self.n)])


import collections.abc as _abc


class IntOnlySequence(_abc.Sequence):
    """A user Sequence whose __getitem__ accepts integers only."""

    def __init__(self, items):
        self._items = list(items)

    def __len__(self):
        return len(self._items)

    def __getitem__(self, i):
        if not isinstance(i, int):
            raise TypeError("integer indexes only")
        return self._items[i]


def typed_input(c, call):
    items = [(c, i) for i in range(call["n"])]
    if call.get("item_type") == "list":
        items = [[c, i] for i in range(call["n"])]     # an input element may itself be a list
    t = call.get("input_type", "list")
    if t == "tuple":
        return tuple(items)
    if t == "iterator":
        return iter(items)
    if t == "range-like":
        return RangeLike(c, call["n"])
    if t == "deque":
        import collections
        return collections.deque(items)        # a Sequence that rejects slices
    if t == "int-only-sequence":
        return IntOnlySequence(items)
    return items


def take_exact(inner, n):
    for _ in range(n):
        try:
            yield next(inner)
        except StopIteration:
            return


def ready_call(k, pool, rec):
    """until_all_ready() with its oracle input: the workers that were in procs when it was CALLED (a successor that the
    replace thread installs while the call is scanning cannot be demanded) must all have completed begin() on return."""
    snapshot = list(pool.procs)
    # ... and so must every worker process that is already RUNNING when it is called, installed in procs or not (the
    # pool installs a successor before it starts it, so on the original code this set adds only retired workers that
    # have not exited yet)
    running = [t.name for t in k.tasks if t.kind == "process" and t.role == "worker" and not t.done]
    pool.until_all_ready()
    note_ready(k, snapshot, rec, running)


def note_ready(k, procs, rec, running=()):
    names = list(running)
    for p in procs:
        if p._popen is not None:
            names.append(p._popen.task_name)
        else:
            # a worker that has not even been started cannot have completed begin()
            names.append(f"<unstarted wid {p.wid}>")
    rec("ready_returned", names)


def is_result_payload(e):
    """A payload entry: (i, chunk) with int i >= 0 and a non-empty list of functor results."""
    try:
        i, chunk = e
    except (TypeError, ValueError):
        return False
    if not isinstance(i, int) or isinstance(i, bool) or i < 0:
        return False
    if not isinstance(chunk, list) or not chunk:
        return False
    return all(isinstance(v, tuple) and len(v) == 3 and v[2] == "r" for v in chunk)


# ----------------------------------------------------------------------------------------
# oracles

def check_results(plan, obs):
    """C01 oracle per completed call -> list of violations."""
    out = []
    for c, call in enumerate(plan["calls"]):
        if c >= len(obs["call_state"]) or obs["call_state"][c] != "done":
            continue
        got = [tuple(v) if isinstance(v, (list, tuple)) else v for v in obs["outs"][c]]
        exp = [f_of((c, i)) for i in range(call["n"])]
        if call["ordered"]:
            if got != exp:
                out.append(classify_wrong(c, got, exp, "imap"))
        else:
            if not valid_unordered(got, exp, call["chunk"]):
                out.append(classify_wrong(c, got, exp, "imap_unordered"))
        left = obs["leftover"][c]
        if left:
            out.append({"class": "leftover-result", "site": "results-queue",
                        "message": f"call {c} ended with result chunks still queued: {left[:3]}"})
    return out


def valid_unordered(got, exp, chunk):
    if sorted(got) != sorted(exp):
        return False
    # every chunk must appear as a contiguous block in chunk-internal order
    chunks = [exp[i:i + chunk] for i in range(0, len(exp), chunk)]
    start = {ch[0]: ch for ch in chunks}
    i = 0
    while i < len(got):
        ch = start.get(got[i])
        if ch is None or got[i:i + len(ch)] != ch:
            return False
        i += len(ch)
    return True


def classify_wrong(c, got, exp, api):
    exp_set = set(exp)
    if not got and exp:
        shape = "empty-output"
    elif any(isinstance(v, tuple) and len(v) == 3 and v[0] != c for v in got):
        shape = "foreign-call"
    elif any(v not in exp_set for v in got):
        shape = "invented"
    elif len(set(got)) < len(got):
        shape = "duplicate"
    elif set(got) != exp_set:
        shape = "missing"
    else:
        shape = "reordered"
    return {"class": "wrong-result", "site": shape,
            "message": f"call {c} ({api}) returned {len(got)} values {got[:6]}..., expected {len(exp)} {exp[:6]}..."}


def withheld_at_stall(plan, obs):
    """C01 at a stall: a result chunk that the consumer has already taken from the results queue, and whose
    predecessors it has taken as well (ordered) - so nothing stands in the way of yielding it - but that was never
    yielded, is a LOST result (the hang is only its symptom).  Returns violations."""
    out = []
    c = len(obs["call_state"]) - 1
    if c < 0 or obs["call_state"][c] != "running":
        return out
    call = plan["calls"][c]
    got = {}
    for m in obs["ctx"].managers:
        for q in m.objects:
            if isinstance(q, SimManagerQueue):
                for step, name, item in q.get_log:
                    if name == "main" and is_result_payload(item) and item[1][0][0] == c:
                        got[item[0]] = len(item[1])
    if not got:
        return out
    if call["ordered"]:
        m_ = 0
        while m_ in got:
            m_ += 1
        deliverable = sum(got[j] for j in range(m_))
    else:
        deliverable = sum(got.values())
    yielded = len(obs["outs"][c])
    if yielded < deliverable:
        out.append({"class": "wrong-result", "site": "taken-from-queue-but-never-yielded",
                    "message": f"call {c}: the consumer took result chunks {sorted(got)} from the results queue, "
                               f"{deliverable} values were deliverable, only {yielded} were yielded before the call hung"})
    return out


def stall_site(info):
    parts = []
    for b in info.get("blocked", []):
        parts.append(f"{b['role']}@{b.get('func')}:{b.get('line')}")
    return " | ".join(sorted(set(parts)))


def check_lifecycle(plan, obs, k, complete):
    out = []
    rec = obs["rec"]
    per = {}
    for step, name, kind, detail in rec.events:
        if kind in ("begin", "begin!", "begin_done", "item", "item!", "end"):
            per.setdefault(name, []).append(kind)
    unfinished_names = {t.name for t in k.tasks if not t.done}
    for name, evs in per.items():
        s = "".join({"begin": "B", "begin_done": "D", "begin!": "X", "item": "i", "item!": "Y", "end": "E"}[e]
                    for e in evs)
        full = re.fullmatch(r"B(D(i)*(iY)?|X)E", s)
        prefix = re.fullmatch(r"B?(D(i)*(iY)?|X)?E?", s) and (s == "" or s[0] == "B")
        ok = bool(full) if ((complete and name not in unfinished_names) or s.endswith("E")) else bool(prefix)
        if s.count("E") > 1 or s.count("B") > 1:
            ok = False
        if not ok:
            out.append({"class": "lifecycle", "site": "grammar",
                        "message": f"{name}: event log {s!r} is not begin (item)* end"})
    if complete:
        # every process task ever started must have a log and have finished
        for t in k.tasks:
            if t.kind == "process" and t.role == "worker":
                if t.name not in per or not "".join(per[t.name]).endswith("end"):
                    if t.done and t.name not in per:
                        out.append({"class": "lifecycle", "site": "no-begin",
                                    "message": f"{t.name} finished without begin/end"})
    # until_all_ready
    done_at = {}
    for step, name, kind, detail in rec.events:
        if kind == "begin_done":
            done_at[name] = step
        if kind == "ready_returned":
            for n in detail:
                if n not in done_at:
                    out.append({"class": "lifecycle", "site": "until_all_ready-early",
                                "message": f"until_all_ready() returned at step {step} before begin() of {n} completed"})
    # quota: chunks taken from the work queue per worker process
    quota = plan["quota"] if plan["quota"] != math.inf else (plan.get("plain_quota") or math.inf)
    if quota != math.inf:
        taken = {}
        for m in obs["ctx"].managers:
            for q in m.objects:
                if isinstance(q, SimManagerQueue):
                    for step, name, item in q.get_log:
                        if item is not None and name.startswith("worker") and is_work_item(item):
                            taken[name] = taken.get(name, 0) + 1
        for name, n in taken.items():
            if n > quota:
                out.append({"class": "lifecycle", "site": "quota-exceeded",
                            "message": f"{name} took {n} chunks with quota {quota}"})
    return out


def is_work_item(e):
    try:
        i, chunk = e
    except (TypeError, ValueError):
        return False
    return isinstance(i, int) and isinstance(chunk, list) and all(
        isinstance(v, (tuple, list)) and len(v) == 2 for v in chunk)


def compute_probes(k, obs, plan):
    """Rare-window probes from the anchor log: entries are (step, task name, anchor)."""
    pr = {}

    def hit(n):
        pr[n] = pr.get(n, 0) + 1

    put_pending = False
    feeder_started = set()
    owed_wait_entered = False
    for step, name, a in k.anchor_log:
        if a in ("cond", "owed.test"):
            if put_pending:
                hit("cond-between-put-and-cnt")
            if name == "main" and not feeder_started:
                hit("cond-before-feeder-first-statement")
        elif a == "feeder.put":
            put_pending = True
            feeder_started.add(name)
        elif a == "feeder.cnt":
            put_pending = False
        elif a == "feeder.done":
            feeder_started.discard(name)
        elif a == "worker.full_fallback":
            hit("worker-full-fallback")
        elif a == "flow.pause":
            hit("flow-control-paused-feeder")
        elif a == "worker.retire":
            hit("worker-retired")
        elif a == "replace.start":
            hit("replacement-started")
        elif a == "get.blocking":
            hit("blocking-get-entered")
        elif a == "owed.wait":
            hit("consumer-waited-for-feeder-progress")
    return pr


def evaluate(prop, plan, obs, k: Kernel, kind, info):
    viol = []
    skip = None
    complete = kind == "complete"
    stalled = kind == "stall"
    if kind == "capped":
        return {"verdict": "inconclusive"}
    fault_family = plan["begin_raises"] is not None or plan["functor_raises"] is not None
    results_v = check_results(plan, obs)
    crash_v = []
    if kind == "crash":
        et = info.get("exc_type")
        tb = info.get("traceback", "")
        func = "?"
        m = re.findall(r'File "[^"]*windpyutils/([^"]+)", line \d+, in (\w+)', tb)
        if m:
            func = f"{m[-1][0]}:{m[-1][1]}"
        crash_v.append({"class": "crash", "site": f"{et}@{func}", "message": info.get("exc", "")})
    thread_v = []
    for name, exc, tb in k.task_errors:
        if "Boom" in exc:
            continue
        if plan.get("join_timeout") and name.startswith("worker") and "SimManagerClosed" in exc:
            continue    # with join_timeout a slow worker may legitimately outlive the pool and its manager
        role = name.split("#")[0]
        thread_v.append({"class": "task-died", "site": f"{role}:{exc.split('(')[0]}",
                         "message": f"{name} died: {exc}"})
    stall_v = []
    if stalled:
        stall_v.append({"class": "stall", "site": stall_site(info),
                        "message": f"phase={obs['phase']} calls_done={obs['call_state']} blocked={info['blocked']}"})
    if prop == "C01":
        viol = results_v + crash_v + [v for v in thread_v]
        if stalled:
            viol += withheld_at_stall(plan, obs)
        if not viol and not any(s == "done" for s in obs["call_state"]):
            skip = "call-not-completed (stall is C02's verdict)"
    elif prop == "C02":
        viol = stall_v
        if kind == "crash" and not viol:
            skip = "consumer crashed (C01/C03's verdict)"
    elif prop == "C03":
        viol = results_v + crash_v + thread_v + stall_v
    elif prop == "C04":
        lv = check_lifecycle(plan, obs, k, complete)
        viol = list(lv)
        expected_stall = plan["functor_raises"] is not None or (plan["begin_raises"] is not None and plan["until_ready"] == 1)
        if complete:
            if obs.get("unfinished_at_exit") and not plan.get("join_timeout"):
                viol.append({"class": "left-running", "site": "process",
                             "message": f"processes still running after __exit__: {obs['unfinished_at_exit']}"})
        elif stalled and not expected_stall:
            # not C04's verdict unless it is the exit that hangs with workers left
            if obs["phase"] == "exiting":
                viol.append({"class": "stall", "site": stall_site(info),
                             "message": f"pool exit never returned: {info['blocked']}"})
            elif not viol:
                skip = "stalled before exit (C02/C03's verdict)"
        elif kind == "crash" and not viol:
            skip = "consumer crashed (C01/C03's verdict)"
    res = {"verdict": "violation" if viol else ("skip" if skip else "ok"), "violations": viol}
    if skip and not viol:
        res["skip_reason"] = skip
    res["stalled"] = stalled
    return res


# ----------------------------------------------------------------------------------------
# spec objects

class PoolSpec:
    ENGINE = "A: in-process baton kernel (real threads, one runs at a time), line-level pre-emption via sys.settrace"
    FILES = FILES
    REAL = ["windpyutils.parallel.own_proc_pools (FunctorPool, FactoryFunctorPool, SendWorkThread, "
            "ReplaceWorkerThread, CMThread, BaseFunctorWorker.run)", "windpyutils.buffers.Buffer",
            "threading.Thread objects and their bootstrap", "multiprocessing.process.BaseProcess start/join/exitcode"]
    STUBBED = ["multiprocessing manager + Queue proxies (SimManagerQueue)", "multiprocessing.Queue (SimPipeQueue)",
               "context.Lock/Event (SimLock/SimEvent)", "threading.Event (SimEvent)",
               "process creation (_Popen -> kernel task on a fork-like copy)",
               "Thread.start/join (who runs when)"]
    ASSUMPTIONS = [
        "pre-emption granularity is the source line of windpyutils code plus every primitive operation",
        "stub semantics of manager queues, locks, events follow CPython 3.12 (sim/conformance.py compares them "
        "with the real objects)",
        "fork-like copy of worker objects is a deep copy with kernel objects shared",
        "sampling, not enumeration: a clean batch is evidence, not proof",
    ]
    PROBES = ["cond-between-put-and-cnt", "worker-full-fallback", "flow-control-paused-feeder",
              "blocking-get-entered", "consumer-waited-for-feeder-progress", "worker-retired", "replacement-started"]

    def __init__(self, prop, family, rule, quick_runs, thorough_runs):
        self.PROPERTY = prop
        self.family = family
        self.RULE = rule
        self._runs = {"quick": quick_runs, "thorough": thorough_runs}
        self._anchors = None

    def runs(self, tier):
        return self._runs[tier]

    def wall_budget(self, tier):
        return 150 if tier == "quick" else 3000

    def prepare(self):
        import windpyutils.parallel.own_proc_pools  # noqa: imported in the template, before any fork
        self._anchors = find_anchors(runner.REPO_ROOT)

    def run(self, tier, run_seed, replay, trace, emit):
        if self._anchors is None:
            self.prepare()
        choice = Choice(run_seed, replay)
        plan = build_plan(choice, tier, self.family)
        est = 150 + 60 * sum(c["n"] for c in plan["calls"])
        strategy = make_strategy(choice, est)
        obs = {"outs": [], "call_state": [], "leftover": [], "live_after_call": [], "phase": "init"}
        prop = self.PROPERTY

        def on_end(kind, info):
            if kind == "unsupported":
                emit({"verdict": "harness-error", "message": "simulated environment lacks something the code asked for: "
                      + str(info.get("exc"))})
            res = evaluate(prop, plan, obs, k, kind, info)
            res.update({
                "digest": k.digest(), "signature": k.signature(), "steps": k.step, "switches": k.switches,
                "preemptions": k.preemptions, "sync_events": k.sync_events, "max_live": k.max_live, "abstract_states": sorted(k.abstract_states),
                "probes": {**k.probes, **compute_probes(k, obs, plan)}, "faults": k.faults,
                "strategy": strategy.name,
                "nontrivial": k.max_live >= 2 and k.preemptions >= 1,
                "plan": plan_readable(plan, strategy), "streams": choice.streams(), "end": kind,
                "end_info": info if kind != "complete" else None, "task_errors": k.task_errors[:3],
            })
            if trace:
                res["trace"] = compress_trace(k.trace_events)
            emit(res)

        k = Kernel(choice, strategy, on_end, trace_root=os.path.join(runner.REPO_ROOT, "windpyutils"),
                   granularity=plan["granularity"], anchors=self._anchors)
        if trace:
            k.trace_events = []
        k.early_timeouts_left = plan.get("early_timeouts", 0)
        k.run(lambda: scenario(k, plan, obs))


def plan_readable(plan, strategy):
    p = dict(plan)
    p["quota"] = "inf" if plan["quota"] == math.inf else plan["quota"]
    p["strategy"] = strategy.describe()
    return p


def compress_trace(events, limit=400):
    """Readable minimised trace: collapse runs of plain line steps of one task."""
    out = []
    for step, name, label in events or []:
        if out and out[-1][1] == name and not label.startswith("@") and ":" in label and label.split(":")[0].endswith(".py") \
                and out[-1][2].split(":")[0].endswith(".py") and not out[-1][2].startswith("@"):
            out[-1] = (out[-1][0], name, out[-1][2].split("..")[0] + ".." + label.split(":")[-1])
        else:
            out.append((step, name, label))
    if len(out) > limit:
        out = out[:limit // 2] + [("...", "...", f"{len(out) - limit} events elided")] + out[-limit // 2:]
    return [f"{s} {n} {l}" for s, n, l in out]


RULE = ("one run = one seeded plan (pool class, workers, chunk size, queue bounds, quota, call list, input laziness "
        "and pause points, functor/consumer pauses, fault plan) plus one seeded schedule (strategy drawn per run: "
        "uniform / sticky / PCT-d / run-to-block with k pre-emptions); a run is non-trivial when at least two tasks "
        "were runnable at once and at least one pre-emption happened; distinct = distinct sync-order signature "
        "(SHA-256 of the ordered sequence of (task role, primitive operation or anchored source line) pairs), "
        "counted over the non-trivial runs of this batch")

SPECS = {
    "C01": PoolSpec("C01", "single", RULE, 10000, 400000),
    "C02": PoolSpec("C02", "single", RULE, 10000, 400000),
    "C03": PoolSpec("C03", "multi", RULE, 9000, 300000),
    "C04": PoolSpec("C04", "lifecycle", RULE, 9000, 300000),
}
