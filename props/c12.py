"""C12: mutable line files act as a list of lines; save writes it; source untouched (engine C).

Real: the four mutable variants of windpyutils.files, io stack, mmap, real files.
Simulated: order in which editor / readers / saver perform their next operation; the raw file
behind `open` during save(): ENOSPC/EIO, short and torn writes, failing open, EIO while reading
through to the source.
"""
import errno
import hashlib
import os
import re
import shutil
import tempfile
from dataclasses import dataclass

from sim.choice import Choice
from sim.coop import CoopScheduler, FaultPlan, make_open
from sim import runner

FILES = ["windpyutils/files.py"]
VARIANTS = ["MutableRandomLineAccessFile", "MutableMemoryMappedRandomLineAccessFile", "MutableRecordFile",
            "MutableMemoryMappedRecordFile"]
WORDS = ["alpha", "", "two words", " pad ", "žluť", "日本", "a,b", "x" * 30, "0", "{\"k\":1}", "tab\tx", "end.", "trail\t", "blank ",
         "vt\x0bff\x0c", "nel\x85ls\u2028",
         # texts that END with a character of one of the line endings below: it belongs to the line
         "semi;", "bar |", ";", "a;;"]
ENDINGS = ["\n", "\n", "\r\n", "\r", ";", "\t", " |", "\n", ";"]


def build_plan(choice: Choice, tier):
    d = choice.draw
    p = {}
    p["variant"] = VARIANTS[d(4, "variant")]
    rec = "Record" in p["variant"]
    # record variants: a JSON record class, or a pass-through record whose text is stored as it is (texts may end
    # with blanks or tabs, which a record file must keep)
    p["record_class"] = ["json", "raw", "csv", "derived"][d(4, "record.class")] if rec else None
    n = d(9, "init.n")
    if "MemoryMapped" in p["variant"] and n == 0:
        n = 1
    huge = d(40, "init.huge") == 39
    if huge:
        # many short lines: line counts around powers of two (block-wise processing of lines), few operations
        n = [4095, 4096, 4097, 8193][d(4, "init.huge.n")]
        p["init"] = [f"{i}|h" for i in range(n)]
    else:
        p["init"] = [f"{i}|{WORDS[d(len(WORDS), 'init.word')]}" for i in range(n)]
    if n and d(8, "init.long") == 7:
        p["init"][d(n, "init.long.at")] += "L" * 9000
    p["final_nl"] = d(3, "init.final_nl") != 0 or (n > 0 and p["init"][-1] == "")
    p["index_file"] = d(5, "index.file") == 4      # the line offsets come from an index file
    ops = []
    fresh = [0]

    made = []

    def val():
        # a quarter of the values duplicate an existing line (an initial one or one made earlier): a list
        # distinguishes equal items only by position, remove/index/count must act on the first occurrence
        pool = p["init"] + made
        if pool and d(4, "val.dup") == 3:
            v = pool[d(len(pool), "val.dup.which")]
            if len(v) < 200:
                return v
        fresh[0] += 1
        v = f"n{fresh[0]}|{WORDS[d(len(WORDS), 'val')]}"
        made.append(v)
        return v

    n_ops = 1 + d(14 if tier == "quick" else 24, "ops")
    if huge:
        n_ops = 1 + d(3, "ops.huge")
    many_edits = (not huge) and d(50, "ops.many") == 49
    if many_edits:
        n_ops = 1030 + d(100, "ops.many.n")     # more single edits on one open object than any small constant
    for _ in range(n_ops):
        k = d(28, "op")     # 25-27: a save (with or without an injected fault)
        if many_edits and k > 8:
            k = [0, 1, 2, 3, 5][d(5, "op.edit")]     # mostly edits
        if k == 0:
            ops.append(["set", d(12, "i") - 2, val()])
        elif k == 1:
            ops.append(["del", d(12, "i") - 2])
        elif k == 2:
            ops.append(["insert", d(14, "i") - 3, val()])
        elif k == 3:
            ops.append(["append", val()])
        elif k == 4:
            ops.append(["extend", [val() for _ in range(d(3, "ext"))], ["list", "tuple", "generator", "iterator"][d(4, "ext.form")]])
        elif k == 5:
            ops.append(["pop", None if d(2, "popdefault") == 0 else d(12, "i") - 2])
        elif k == 6:
            ops.append(["remove_at", d(10, "i")])   # remove(value of model[i]) or an absent value
        elif k == 7:
            ops.append(["reverse"])
        elif k == 8:
            ops.append(["iadd", [val() for _ in range(d(3, "ext"))], ["list", "tuple", "generator", "iterator"][d(4, "ext.form")]])
        elif k in (9, 10):
            ops.append(["get", d(12, "i") - 2])
        elif k == 11:
            a, b = d(10, "a") - 1, d(10, "b") - 1
            ops.append(["slice", None if a < 0 else a, None if b < 0 else b, [None, 1, 2, -1][d(4, "st")]])
        elif k in (12, 13):
            ops.append(["list"])
        elif k == 14:
            ops.append(["len"])
        elif k == 15:
            ops.append(["set_bad", d(6, "i") + 50])      # far out of range
        elif k == 16:
            ops.append(["set_nonstr"])
        elif k == 17:
            ops.append(["iter_start"])      # the client starts an iteration that stays open across later operations
        elif k in (18, 19):
            ops.append(["iter_next"])       # ... and takes its next item (a list iterator sees the edits made meanwhile)
        elif k == 20:
            ops.append(["index_of", d(10, "i")])
        elif k == 21:
            ops.append(["count_of", d(10, "i")])
        elif k == 22:
            ops.append(["contains", d(10, "i")])
        elif k == 23:
            ops.append(["reopen"])      # close() + open(): the edits live in memory and must survive it
        elif k == 24:
            # extend / += with an iterable that raises after j items: the items before the failure stay, as in a list
            ops.append(["extend_raising", [val() for _ in range(d(3, "ext"))], d(2, "ext.iadd")])
        else:
            fault = d(8, "save.fault")
            ops.append(["save", ENDINGS[d(len(ENDINGS), "ending")], d(2, "save.as_handle"),
                        ["none", "none", "none", "write-error", "torn", "short", "open-error", "read-error"][fault],
                        1 + d(3, "save.fault.at"), d(2, "reopen.mm")])
    # always end with a fault-free save
    ops.append(["save", ENDINGS[d(len(ENDINGS), "ending")], 0, "none", 1, d(2, "reopen.mm")])
    # three clients share the op list round-robin by a drawn assignment
    p["ops"] = ops
    p["assign"] = [d(3, "assign") for _ in ops]
    p["stickiness"] = [0.0, 0.6][d(2, "stickiness")]
    return p


def make_record_class(kind="json"):
    from windpyutils.files import JsonRecord, Record
    if kind == "csv":
        # the library's own CSV record: its save() ends with the line terminator of the csv module ("\r\n")
        from windpyutils.files import CSVRecord

        @dataclass
        class Csv(CSVRecord):
            text: str
            n: int = 0
        return Csv
    if kind == "raw":
        @dataclass
        class Raw(Record):
            text: str
            n: int = 0

            @classmethod
            def load(cls, s):
                return cls(s, len(s))

            def save(self):
                return self.text
        return Raw

    @dataclass
    class Rec(JsonRecord):
        text: str
        n: int = 0
    if kind == "derived":
        # a record class that extends a CONCRETE record class which was used first (its own field list is longer)
        Rec("warm-up", 1).save()
        Rec.load(Rec("warm-up", 1).save())

        @dataclass
        class Derived(Rec):
            extra: int = 0

            @classmethod
            def make(cls, s):
                return cls(s, len(s), 3 * len(s) + 1)
        return Derived
    return Rec


def sha(path):
    with open(path, "rb") as f:
        return hashlib.sha256(f.read()).hexdigest()


def execute(plan, choice, tmpdir, trace):
    import json
    import windpyutils.files as files
    rec = "Record" in plan["variant"]
    Rec = make_record_class(plan.get("record_class") or "json") if rec else None

    def to_item(s):
        if rec and hasattr(Rec, "make"):
            return Rec.make(s)
        return Rec(s, len(s)) if rec else s

    csv_kind = plan.get("record_class") == "csv"

    def line_of(item):
        if csv_kind:
            return item.save().rstrip("\r\n")      # the one line the record occupies
        return item.save() if rec else item

    src = os.path.join(tmpdir, "source.txt")
    init_items = [to_item(s) for s in plan["init"]]
    with open(src, "wb") as f:
        body = "\n".join(line_of(it) for it in init_items)
        if init_items and plan["final_nl"]:
            body += "\n"
        f.write(body.encode("utf-8"))
    src_sha = sha(src)
    src_stat = os.stat(src)
    fp = FaultPlan()
    fp.active = False
    files.open = make_open(fp, lambda p, mode: p.startswith(tmpdir))
    cls = getattr(files, plan["variant"])
    idx_path = None
    if plan.get("index_file"):
        idx_path = os.path.join(tmpdir, "source.index")
        pos = 0
        with open(idx_path, "w") as f:
            for it in init_items:
                f.write(f"{pos}\n")
                pos += len(line_of(it).encode("utf-8")) + 1
    sched = CoopScheduler(choice, plan["stickiness"])
    try:
        if idx_path is not None:
            obj = cls(src, Rec, idx_path) if rec else cls(src, idx_path)
        else:
            obj = cls(src, Rec) if rec else cls(src)
    except Exception as e:  # noqa
        # no fault is active while the object is constructed
        import traceback
        return ([{"class": "exception", "site": f"constructor:{type(e).__name__}",
                  "message": f"{plan['variant']}(...) raised {e!r} " + traceback.format_exc()[-400:]}], sched, fp,
                {"saves": 0, "faulted_saves": 0, "edits": 0, "mixed_state_reads": 0})
    model = list(init_items)
    viol = []
    if trace:
        sched.trace = []
    stats = {"saves": 0, "faulted_saves": 0, "edits": 0, "mixed_state_reads": 0}
    modified = [False]

    def v(cls_, site, msg):
        viol.append({"class": cls_, "site": site, "message": msg})

    def compare_all(where):
        try:
            got = list(obj)
        except Exception as e:  # noqa
            v("exception", f"list:{type(e).__name__}", f"{where}: list(f) raised {e!r}")
            return
        if got != model:
            v("list-model", "content", f"{where}: list(f)={short(got)} model={short(model)}")
        if len(obj) != len(model):
            v("list-model", "len", f"{where}: len={len(obj)} model={len(model)}")
        if not rec:
            if obj.dirty and not modified[0]:
                v("dirty", "true-before-modification", where)
            if not obj.dirty and modified[0]:
                v("dirty", "false-after-modification", where)

    def short(xs):
        out = []
        for x in xs[:8]:
            s = line_of(x) if not isinstance(x, str) else x
            out.append(s if len(s) < 30 else s[:20] + f"..({len(s)})")
        return f"{out}{'...' if len(xs) > 8 else ''}(n={len(xs)})"

    def expect_same(opname, fn_obj, fn_model, mutating):
        """Apply to both; exceptions must be of the same type; results equal."""
        err_m = err_o = None
        res_m = res_o = None
        import copy
        before = list(model)
        try:
            res_m = fn_model()
        except (IndexError, ValueError) as e:
            err_m = type(e)
            model[:] = before
        try:
            res_o = fn_obj()
        except Exception as e:  # noqa
            err_o = type(e)
        if err_m is not err_o:
            v("list-model", f"{opname}:exception", f"{opname}: object raised {err_o}, list raised {err_m}")
            return
        if err_m is None:
            if mutating:
                modified[0] = True
                stats["edits"] += 1
            if res_m != res_o:
                v("list-model", f"{opname}:result", f"{opname}: object returned {res_o!r}, list {res_m!r}")

    def shaped(xs, op):
        # the argument of extend / += may be any iterable, also a one-shot one
        form = op[2] if len(op) > 2 else "list"
        return {"list": list(xs), "tuple": tuple(xs), "generator": (x for x in xs), "iterator": iter(list(xs))}[form]

    iters = {}

    def do(op, cid=0):
        k = op[0]
        if k in ("iter_start", "iter_next"):
            if k == "iter_start" or cid not in iters:
                iters[cid] = (iter(obj), iter(model))
                if k == "iter_start":
                    return
            it_o, it_m = iters[cid]
            stats["iter_steps"] = stats.get("iter_steps", 0) + 1
            try:
                exp = ("item", next(it_m))
            except StopIteration:
                exp = ("stop", None)
            try:
                got = ("item", next(it_o))
            except StopIteration:
                got = ("stop", None)
            except Exception as e:  # noqa
                got = ("error", repr(e))
            if got != exp:
                v("list-model", f"iteration-across-edits:{got[0]}",
                  f"an iteration that was started earlier gives {got!r} where the iterator of a list gives {exp!r}")
                iters.pop(cid, None)
            return
        if k == "set":
            i, s = op[1], to_item(op[2])

            def m():
                model[i] = s

            def o():
                obj[i] = s
            expect_same("setitem", o, m, True)
        elif k == "del":
            i = op[1]

            def m():
                del model[i]

            def o():
                del obj[i]
            expect_same("delitem", o, m, True)
        elif k == "insert":
            i, s = op[1], to_item(op[2])
            expect_same("insert", lambda: obj.insert(i, s), lambda: model.insert(i, s), True)
        elif k == "append":
            s = to_item(op[1])
            expect_same("append", lambda: obj.append(s), lambda: model.append(s), True)
        elif k == "extend":
            xs = [to_item(s) for s in op[1]]
            expect_same("extend", lambda: obj.extend(shaped(xs, op)), lambda: model.extend(xs), bool(xs))
        elif k == "iadd":
            xs = [to_item(s) for s in op[1]]

            def m():
                model.extend(xs)

            def o():
                nonlocal_obj = obj
                nonlocal_obj += shaped(xs, op)
            expect_same("iadd", o, m, bool(xs))
        elif k == "pop":
            i = op[1]
            if i is None:
                expect_same("pop", lambda: obj.pop(), lambda: model.pop(), True)
            else:
                expect_same("pop", lambda: obj.pop(i), lambda: model.pop(i), True)
        elif k == "remove_at":
            i = op[1]
            val = model[i] if i < len(model) else to_item("absent-value")
            expect_same("remove", lambda: obj.remove(val), lambda: model.remove(val), True)
        elif k == "extend_raising":
            xs = [to_item(s) for s in op[1]]

            def raising():
                for x in xs:
                    yield x
                raise LookupError("the iterable failed")

            before_len = len(model)
            got = exp = None
            try:
                model.extend(raising())
            except LookupError as e:
                exp = type(e)
            try:
                if op[2]:
                    tmp = obj
                    tmp += raising()
                else:
                    obj.extend(raising())
            except Exception as e:  # noqa
                got = type(e)
            if got is not exp:
                v("list-model", "extend:exception", f"extend with a failing iterable raised {got}, a list raises {exp}")
            if len(model) > before_len:
                modified[0] = True
                stats["edits"] += 1
        elif k == "reopen":
            obj.close()
            obj.open()
        elif k == "reverse":
            expect_same("reverse", lambda: obj.reverse(), lambda: model.reverse(), len(model) > 1)
        elif k in ("index_of", "count_of", "contains"):
            i = op[1]
            val = model[i] if i < len(model) else to_item("absent-value")
            if k == "index_of":
                expect_same("index", lambda: obj.index(val), lambda: model.index(val), False)
            elif k == "count_of":
                expect_same("count", lambda: obj.count(val), lambda: model.count(val), False)
            else:
                expect_same("contains", lambda: val in obj, lambda: val in model, False)
        elif k == "get":
            i = op[1]
            expect_same("getitem", lambda: obj[i], lambda: model[i], False)
        elif k == "slice":
            sl = slice(op[1], op[2], op[3])
            expect_same("slice", lambda: obj[sl], lambda: model[sl], False)
        elif k == "list":
            compare_all("list op")
        elif k == "len":
            expect_same("len", lambda: len(obj), lambda: len(model), False)
        elif k == "set_bad":
            i = op[1]
            s = to_item("bad")

            def m():
                model[i] = s

            def o():
                obj[i] = s
            expect_same("setitem", o, m, True)
        elif k == "set_nonstr":
            if model:
                try:
                    obj[0] = 12345
                    v("list-model", "setitem:accepts-non-string", "f[0] = 12345 did not raise ValueError")
                except ValueError:
                    pass
                except Exception as e:  # noqa
                    v("list-model", "setitem:non-string-exception", repr(e))
        elif k == "save":
            do_save(op)
        compare_all(f"after {k}")
        if sha(src) != src_sha or os.stat(src).st_size != src_stat.st_size or os.stat(src).st_mtime_ns != src_stat.st_mtime_ns:
            v("source-modified", k, f"source file changed after {op[:2]}")

    def do_save(op):
        _, ending, as_handle, fault, at, reopen_mm = op
        stats["saves"] += 1
        out = os.path.join(tmpdir, f"out{stats['saves']}.txt")
        fp.reads = fp.writes = fp.opens_w = 0
        fp.read_error, fp.write_error, fp.write_torn, fp.open_error = set(), {}, {}, {}
        fp.write_short_all = False
        if fault == "write-error":
            fp.write_error = {at: errno.ENOSPC}
        elif fault == "torn":
            fp.write_torn = {at: errno.EIO}
        elif fault == "short":
            fp.write_short_all = True
        elif fault == "open-error":
            fp.open_error = {1: errno.EACCES}
        elif fault == "read-error":
            fp.read_error = {at}
        fired_before = dict(fp.fired)
        fp.active = True
        err = None
        try:
            if as_handle and fault != "open-error":
                # the caller opens the target; errors while closing it belong to the caller
                h = files.open(out, "w", newline="")
                try:
                    obj.save(h, ending)
                    h.flush()
                finally:
                    try:
                        h.close()
                    except OSError as e:
                        err = err or e
            else:
                obj.save(out, ending)
        except OSError as e:
            err = e
        except Exception as e:  # noqa
            err = e
            v("exception", f"save:{type(e).__name__}", f"save raised {e!r}")
        finally:
            fp.active = False
        fired = {k2: n - fired_before.get(k2, 0) for k2, n in fp.fired.items() if n - fired_before.get(k2, 0)}
        hard = any(k2 in fired for k2 in ("write-error", "torn-write", "open-error", "read-EIO"))
        if hard:
            stats["faulted_saves"] += 1
        if err is not None and not hard:
            v("exception", f"save:{type(err).__name__}:no-fault", f"fault-free save raised {err!r}")
            return
        if csv_kind and err is None and not hard:
            # the terminator that csv gives to save() makes the exact bytes a matter of definition: judged by reopening
            exp = None
        elif csv_kind:
            return
        if err is None and hard and fault in ("write-error", "torn", "open-error"):
            # a write error must not be swallowed: the file would be silently incomplete
            exp = "".join(line_of(x) + ending for x in model).encode("utf-8")
            got = open(out, "rb").read() if os.path.exists(out) else None
            if got != exp:
                v("save", "error-swallowed", f"save hit {fired} but returned normally with incomplete output")
            return
        if err is not None:
            return
        exp = "".join(line_of(x) + ending for x in model).encode("utf-8")
        with open(out, "rb") as f:
            got = f.read()
        if got != exp and not csv_kind:
            v("save", f"bytes:{'as-handle' if as_handle else 'path'}",
              f"save(ending={ending!r}) wrote {got[:80]!r}... expected {exp[:80]!r}...")
            return
        if ending == "\n" and (model or not reopen_mm):
            base = plan["variant"].replace("MemoryMapped", "")
            name = base.replace("Mutable", "MutableMemoryMapped") if reopen_mm else base
            cls2 = getattr(files, name)
            try:
                with (cls2(out, Rec) if rec else cls2(out)) as again:
                    back = list(again)
                stats["reopens"] = stats.get("reopens", 0) + 1
                if back != model:
                    v("save", "reopen", f"reopened {name}: {short(back)} model {short(model)}")
            except Exception as e:  # noqa
                v("exception", f"reopen:{type(e).__name__}", repr(e))

    def client(cid):
        for op, a in zip(plan["ops"], plan["assign"]):
            if a == cid:
                do(op, cid)
                yield op[0] if op[0] != "save" else f"save:{op[3]}"

    fds_before = set(os.listdir("/proc/self/fd"))
    try:
        with obj:
            compare_all("initial")
            for cid in range(3):
                sched.add(f"client{cid}", client(cid))
            sched.run()
            compare_all("final")
            if idx_path is not None and not viol:
                # a fresh, unmodified object made from the same index file must show the ORIGINAL lines
                with (cls(src, Rec, idx_path) if rec else cls(src, idx_path)) as fresh:
                    got = list(fresh)
                if got != init_items:
                    v("list-model", "fresh-object-from-the-same-index-file",
                      f"a new object created from the same index file after the edits reads {short(got)}, the source holds {short(init_items)}")
    except Exception as e:  # noqa
        import traceback
        tb = traceback.format_exc()
        m = re.findall(r'File "[^"]*windpyutils/([^"]+)", line \d+, in (\w+)', tb)
        viol.append({"class": "exception", "site": f"{type(e).__name__}@{m[-1][1] if m else '?'}",
                     "message": repr(e) + tb[-600:]})
    leaked = len(set(os.listdir("/proc/self/fd")) - fds_before)
    if leaked and not any(x["class"] == "exception" for x in viol):
        viol.append({"class": "resource", "site": "descriptor-leak",
                     "message": f"{leaked} file descriptors are still open after the file object was closed"})
    seen = set()
    out = []
    for x in viol:
        key = (x["class"], x["site"])
        if key not in seen:
            seen.add(key)
            out.append(x)
    return out, sched, fp, stats


class Spec:
    PROPERTY = "C12"
    ENGINE = "C: cooperative clients (editor / readers / saver) of one object; faulty raw file behind open() during save"
    FILES = FILES
    REAL = ["windpyutils.files mutable line-file variants (4)", "io stack, mmap, real files"]
    STUBBED = ["raw FileIO behind files.open for files in the run's directory (write errors, short/torn writes, "
               "failing open, read EIO - only while a save() is in progress)", "order of client operations"]
    ASSUMPTIONS = [
        "operations are atomic at the public-API level (one client operation per step)",
        "record variants use a JsonRecord subclass (content without line breaks)",
        "after an injected hard fault save() may raise OSError and leave any bytes in the target; the object must still "
        "equal the model and the source file must be unchanged; a later fault-free save must be exact",
        "sampling, not enumeration",
    ]
    PROBES = ["faulted-save", "save", "edit", "reopen"]
    RULE = ("one run = seeded initial content and variant, a seeded operation list (edits, reads, saves with fault plan) "
            "dealt to three clients, and the seeded order in which the clients act; non-trivial = at least one edit and "
            "one save and two client switches; distinct = distinct hash of the ordered (client, operation) sequence among those")

    def runs(self, tier):
        return 12000 if tier == "quick" else 300000

    def wall_budget(self, tier):
        return 150 if tier == "quick" else 3000

    def prepare(self):
        import windpyutils.files  # noqa

    def run(self, tier, run_seed, replay, trace, emit):
        choice = Choice(run_seed, replay)
        plan = build_plan(choice, tier)
        tmpdir = tempfile.mkdtemp(prefix="verif-c12-")
        from sim.coop import StepCap
        try:
            viol, sched, fp, stats = execute(plan, choice, tmpdir, trace)
        except StepCap:
            shutil.rmtree(tmpdir, ignore_errors=True)
            emit({"verdict": "inconclusive"})
        finally:
            shutil.rmtree(tmpdir, ignore_errors=True)
        probes = {"save": stats["saves"], "edit": stats["edits"], "faulted-save": stats["faulted_saves"],
                  "reopen": stats.get("reopens", 0)}
        res = {"verdict": "violation" if viol else "ok", "violations": viol,
               "digest": sched.digest(), "signature": sched.signature(), "steps": sched.step,
               "switches": sched.switches, "preemptions": sched.switches, "sync_events": sched.step,
               "max_live": sched.max_live, "probes": {k: n for k, n in probes.items() if n}, "faults": dict(fp.fired),
               "strategy": f"sticky{plan['stickiness']}",
               "nontrivial": stats["edits"] >= 1 and stats["saves"] >= 1 and sched.switches >= 2,
               "plan": plan_short(plan), "streams": choice.streams(), "end": "complete"}
        if trace:
            res["trace"] = sched.trace
        emit(res)


def plan_short(plan):
    p = dict(plan)
    p["init"] = [l if len(l) < 40 else l[:25] + f"...({len(l)})" for l in plan["init"]]
    return p


SPEC = Spec()
