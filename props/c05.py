"""C05: FunctorMap (windpyutils.parallel.pools) and mul_p_map (windpyutils.parallel.maps) inside
engine A.  Real: FunctorMap.__enter__/__call__/__exit__, FunctorWorker.run, mul_p_map, FunRunner.run,
Buffer.  Simulated: multiprocessing.Queue (pipe queue with in-flight window, cross-producer
reordering, optional finite pipe capacity), process creation."""
import os

from sim.choice import Choice
from sim.kernel import Kernel, make_strategy
from sim.prims import SimContext, make_popen
from sim import runner

FILES = ["windpyutils/parallel/pools.py", "windpyutils/parallel/maps.py", "windpyutils/parallel/workers.py",
         "windpyutils/buffers.py"]


def build_plan(choice: Choice, tier):
    d = choice.draw
    thorough = tier == "thorough" or d(8, "large.sizes") == 7
    p = {}
    p["mode"] = "mul_p_map" if d(3, "mode") == 2 else "FunctorMap"
    p["workers"] = 1 + d(6 if thorough else 4, "workers")
    # workers <= 0 means "as many as there are cpus": the cpu count is then the drawn number
    p["workers_arg"] = [None, None, None, -1, 0][d(5, "workers.arg")]
    p["pipe_delay"] = d(4, "pipe.delay") != 0
    # 0: every item is larger than the pipe (a synchronous writer then needs a reader to finish its write)
    p["pipe_capacity"] = [None, None, 1, 2, 0][d(5, "pipe.capacity")] if p["pipe_delay"] else None
    p["functor_pause"] = d(3, "functor.pause")
    p["consumer_pause"] = d(3, "consumer.pause")
    p["granularity"] = "line" if d(5, "granularity") != 4 else "sync"
    n_calls = 1 + d(4 if thorough else 3, "calls")
    if p["mode"] == "mul_p_map":
        n_calls = 1 + d(2, "calls2")
        p["cpu_count"] = 1 + d(4, "cpu_count")  # bound of the class-level work queue
    calls = []
    for c in range(n_calls):
        call = {"chunk": 1 + d(5, "chunk")}
        kind = d(6, "items.kind")
        if kind == 0:
            n = d(2, "items.small")
        elif kind == 1:
            n = max(0, p["workers"] - 1 + d(3, "items.nearworkers") - 1)
        else:
            n = d(41 if thorough else 15, "items")
        if c == 0 and d(16, "items.many") == 15:
            # a long call with single-item chunks: more results outstanding than any small constant bound
            n = [65, 70, 130, 260][d(4, "items.many.n")] * min(2, p["workers"])
            call["chunk"] = 1
        call["n"] = n
        call["lazy"] = d(3, "lazy") == 2
        call["input_type"] = ["list", "tuple", "iterator", "range-like", "list", "deque", "int-only-sequence"][d(7, "input.type")]
        # 'exact': the caller takes exactly len(data) results (zip / islice style) and never asks for more
        call["consume"] = "exact" if d(4, "consume") == 3 else "full"
        call["item_type"] = "list" if d(5, "item.type") == 4 else "tuple"
        calls.append(call)
    p["calls"] = calls
    # FunctorMap: the generators of all calls may be created first and consumed one after the other afterwards
    # (chain(fm(a), fm(b)) / a prepared list of generators); creating a generator must not start anything
    p["prepared"] = p["mode"] == "FunctorMap" and d(4, "prepared") == 3
    return p


def f_of(c, x):
    return (c, x, "r")


def take(inner, n):
    """Exactly n results, without asking the generator for more (zip / islice style consumption)."""
    for _ in range(n):
        try:
            yield next(inner)
        except StopIteration:
            return


def scenario(k: Kernel, plan, obs):
    import windpyutils.parallel.pools as pools
    import windpyutils.parallel.maps as maps
    import windpyutils.parallel.workers as workers
    ctx = SimContext(k, pipe_delay=plan["pipe_delay"], pipe_capacity=plan["pipe_capacity"])
    obs["ctx"] = ctx
    fp = plan["functor_pause"]
    cur = {"c": 0}

    def pf(x):
        if fp == 1:
            k.switch("functor.pause")
        elif fp == 2 and x[1] % 3 == 0:
            k.fault("slow-functor")
            k.defer("functor.defer")
        return (x[0], x[1], "r")

    def data_of(c, call):
        if call["lazy"]:
            def gen():
                for i in range(call["n"]):
                    if i % 2:
                        k.switch("input.pause")
                    yield ([c, i] if call.get("item_type") == "list" else (c, i))
            return gen()
        from props.poolsim import typed_input
        return typed_input(c, call)

    cp = plan["consumer_pause"]
    wa = plan["workers"] if plan.get("workers_arg") is None else plan["workers_arg"]

    class MPShim:
        def cpu_count(self):
            return plan["workers"]

        # module-level constructors belong to the default context, which is the simulated one
        def Queue(self, maxsize=0):
            return ctx.Queue(maxsize)

        def SimpleQueue(self):
            return ctx.SimpleQueue()

        def Lock(self):
            return ctx.Lock()

        def RLock(self):
            return ctx.RLock()

        def Event(self):
            return ctx.Event()

        def Manager(self):
            return ctx.Manager()

        def __getattr__(self, name):
            import multiprocessing as _mp
            return getattr(_mp, name)

    pools.multiprocessing = MPShim()
    maps.multiprocessing = MPShim()
    # names imported with `from multiprocessing import ...` (today: Queue; a variant may import more of them)
    for mod in (pools, maps, workers):
        for name in ("SimpleQueue", "Lock", "RLock", "Event", "Manager"):
            if hasattr(mod, name):
                setattr(mod, name, getattr(ctx, name))
    from sim.prims import install_threading_shims
    from sim.kernel import patch_threading
    patch_threading(k)      # a thread the code under test may start becomes a task of the kernel
    import windpyutils.buffers as buffers_mod
    install_threading_shims(k, [pools, maps, workers, buffers_mod])
    if plan["mode"] == "FunctorMap":
        pools.Queue = ctx.Queue
        pools.FunctorWorker._Popen = make_popen(k)
        pools.FunctorWorker.sim_role = "worker"
        fm = pools.FunctorMap(pf, wa)
        obs["phase"] = "enter"
        with fm:
            obs["phase"] = "inside"
            prepared = [fm(data_of(c, call), call["chunk"]) for c, call in enumerate(plan["calls"])] if plan.get("prepared") else None
            for c, call in enumerate(plan["calls"]):
                out = []
                obs["outs"].append(out)
                obs["call_state"].append("running")
                gen = prepared[c] if prepared else fm(data_of(c, call), call["chunk"])
                if call["consume"] == "exact":
                    gen = take(gen, call["n"])
                for v in gen:
                    out.append(v)
                    if cp == 1:
                        k.switch("consumer.pause")
                    elif cp == 2 and len(out) % 2:
                        k.fault("slow-consumer")
                        k.defer("consumer.defer")
                obs["call_state"][c] = "done"
                k.note(f"call {c} done n={len(out)}")
            obs["phase"] = "exiting"
        obs["phase"] = "exited"
    else:
        workers.FunRunner._Popen = make_popen(k)
        workers.FunRunner.sim_role = "worker"
        workers.FunRunner.WORK_QUEUE = ctx.Queue(plan["cpu_count"])
        workers.FunRunner.RESULTS_QUEUE = ctx.Queue()
        obs["phase"] = "inside"
        for c, call in enumerate(plan["calls"]):
            obs["call_state"].append("running")
            out = maps.mul_p_map(pf, data_of(c, call), wa)
            obs["outs"].append(list(out))
            obs["call_state"][c] = "done"
            k.note(f"call {c} done n={len(out)}")
            left = [t.name for t in k.unfinished() if t.kind == "process"]
            if left:
                obs["unfinished_after_call"] = left
        obs["phase"] = "exited"
    obs["unfinished_at_exit"] = [t.name for t in k.unfinished() if t.kind == "process"]


def evaluate(plan, obs, k, kind, info):
    from props.poolsim import stall_site
    if kind == "capped":
        return {"verdict": "inconclusive"}
    viol = []
    for c, call in enumerate(plan["calls"]):
        if c >= len(obs["call_state"]) or obs["call_state"][c] != "done":
            continue
        got = [tuple(v) if isinstance(v, (list, tuple)) else v for v in obs["outs"][c]]
        exp = [f_of(c, i) for i in range(call["n"])]
        if got != exp:
            es = set(exp)
            if any(isinstance(v, tuple) and len(v) == 3 and v[0] != c for v in got):
                shape = "foreign-call"
            elif any(v not in es for v in got):
                shape = "invented"
            elif len(set(got)) < len(got):
                shape = "duplicate"
            elif set(got) != es:
                shape = "missing"
            else:
                shape = "reordered"
            viol.append({"class": "wrong-result", "site": f"{plan['mode']}:{shape}",
                         "message": f"call {c}: got {got[:8]} (n={len(got)}), expected {exp[:8]} (n={len(exp)})"})
    if kind == "stall":
        viol.append({"class": "stall", "site": stall_site(info),
                     "message": f"phase={obs['phase']} calls={obs['call_state']} blocked={info['blocked']}"})
    if kind == "crash":
        viol.append({"class": "crash", "site": f"{info.get('exc_type')}", "message": info.get("exc", "") +
                     " " + info.get("traceback", "")[-600:]})
    for name, exc, tb in k.task_errors:
        viol.append({"class": "task-died", "site": name.split("#")[0] + ":" + exc.split("(")[0],
                     "message": f"{name}: {exc}"})
    if kind == "complete":
        left = obs.get("unfinished_at_exit") or obs.get("unfinished_after_call")
        if left:
            viol.append({"class": "left-running", "site": plan["mode"],
                         "message": f"worker processes not finished after the call/exit returned: {left}"})
    return {"verdict": "violation" if viol else "ok", "violations": viol, "stalled": kind == "stall"}


class Spec:
    PROPERTY = "C05"
    ENGINE = "A: in-process baton kernel, line-level pre-emption via sys.settrace"
    FILES = FILES
    REAL = ["windpyutils.parallel.pools.FunctorMap/FunctorWorker", "windpyutils.parallel.maps.mul_p_map",
            "windpyutils.parallel.workers.FunRunner.run", "windpyutils.buffers.Buffer",
            "multiprocessing.process.BaseProcess start/join"]
    STUBBED = ["multiprocessing.Queue (SimPipeQueue: per-producer feeder buffers, in-flight window, finite pipe "
               "capacity)", "process creation (_Popen -> kernel task on a fork-like copy)"]
    ASSUMPTIONS = [
        "pre-emption granularity is the source line of windpyutils code plus every queue operation",
        "pipe queue stub: items of one producer stay FIFO, producers interleave arbitrarily, get(False) raises Empty "
        "while items are in flight; payloads are pickled at put() (the real feeder thread pickles slightly later)",
        "sampling, not enumeration",
    ]
    PROBES = ["pipe.get_empty_while_in_flight", "out-of-order-arrival"]
    RULE = ("one run = one seeded plan (FunctorMap or mul_p_map, workers, call list with lengths/chunk sizes, pipe "
            "delay and capacity, functor/consumer pauses) plus one seeded schedule; non-trivial = at least two tasks "
            "runnable at once and at least one pre-emption; distinct = distinct sync-order signature (hash of the "
            "ordered (task role, queue operation / feeder event) sequence) among non-trivial runs")

    def runs(self, tier):
        return 12000 if tier == "quick" else 400000

    def wall_budget(self, tier):
        return 150 if tier == "quick" else 3000

    def prepare(self):
        import windpyutils.parallel.pools  # noqa
        import windpyutils.parallel.maps  # noqa

    def run(self, tier, run_seed, replay, trace, emit):
        choice = Choice(run_seed, replay)
        plan = build_plan(choice, tier)
        est = 100 + 40 * sum(c["n"] for c in plan["calls"])
        strategy = make_strategy(choice, est)
        obs = {"outs": [], "call_state": [], "phase": "init"}

        def on_end(kind, info):
            if kind == "unsupported":
                emit({"verdict": "harness-error", "message": "simulated environment lacks something the code asked for: "
                      + str(info.get("exc"))})
            res = evaluate(plan, obs, k, kind, info)
            probes = dict(k.probes)
            # out-of-order arrival: results queue get_log indices not ascending
            ctx = obs.get("ctx")
            if ctx:
                for q in ctx.pipe_queues:
                    idx = [it[2][0] for it in q.get_log if isinstance(it[2], tuple) and len(it[2]) == 2
                           and isinstance(it[2][1], list) and it[2][1] and isinstance(it[2][1][0], tuple)
                           and len(it[2][1][0]) == 3]
                    if any(a > b for a, b in zip(idx, idx[1:])):
                        probes["out-of-order-arrival"] = probes.get("out-of-order-arrival", 0) + 1
            res.update({
                "digest": k.digest(), "signature": k.signature(), "steps": k.step, "switches": k.switches,
                "preemptions": k.preemptions, "sync_events": k.sync_events, "max_live": k.max_live, "abstract_states": sorted(k.abstract_states),
                "probes": probes, "faults": k.faults, "strategy": strategy.name,
                "nontrivial": k.max_live >= 2 and k.preemptions >= 1,
                "plan": {**plan, "strategy": strategy.describe()}, "streams": choice.streams(), "end": kind,
                "end_info": info if kind != "complete" else None,
            })
            if trace:
                from props.poolsim import compress_trace
                res["trace"] = compress_trace(k.trace_events)
            emit(res)

        k = Kernel(choice, strategy, on_end, trace_root=os.path.join(runner.REPO_ROOT, "windpyutils"),
                   granularity=plan["granularity"])
        if trace:
            k.trace_events = []
        k.run(lambda: scenario(k, plan, obs))


SPEC = Spec()
