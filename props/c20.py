"""C20: TmpPool and FilePool leave nothing behind.

Three families per run (drawn):
* tmp-single  (engine C style, one process): create/remove/flush histories, external deletion,
  an exception raised by the with-body after a drawn step;
* filepool    (one process): 1-5 files, modes, body raising at a drawn point;
* tmp-multi   (engine A): multi_proc pool, the parent creates/removes/flushes while 1-3 child
  processes (fork-like copies taken at a drawn point of the parent's history) create files;
  manager list proxy simulated with per-call atomicity; line-level pre-emption in files.py.
"""
import os
import shutil
import tempfile

from sim.choice import Choice
from sim.kernel import Kernel, make_strategy
from sim.prims import SimContext, _KernelObject
from sim import runner

FILES = ["windpyutils/files.py"]


class BodyError(Exception):
    pass


class Log(_KernelObject):
    def __init__(self):
        self.created = []      # (who, path)
        self.removed = []      # paths removed through the pool by a child
        self.events = []


def build_plan(choice: Choice, tier):
    d = choice.draw
    p = {}
    fam = d(6, "family")
    p["family"] = ["tmp-single", "tmp-multi", "tmp-multi", "filepool", "tmp-single", "tmp-fork"][fam]
    p["use_dir"] = d(4, "use_dir") != 0
    if p["family"] == "tmp-single":
        ops = []
        for _ in range(d(10, "ops") + 1):
            k = d(9, "op")
            if k <= 3:
                ops.append(["create"])
            elif k == 4:
                ops.append(["remove", d(6, "idx")])
            elif k == 5:
                ops.append(["remove_again"])          # a path that was already removed from the pool
            elif k == 6:
                ops.append(["external_delete", d(6, "idx")])
            elif k == 7:
                ops.append(["flush"])
            else:
                ops.append(["listing"])
        p["ops"] = ops
        p["pre_creates"] = [0, 0, 1, 2][d(4, "pre_creates")]     # create() calls before the with statement is entered
        # fault: a pool file is deleted externally at the worst moment - right before the k-th os.remove() the pool
        # issues (i.e. after whatever check the pool did); the pool must tolerate it
        p["vanish_before_remove"] = (1 + d(4, "vanish.at")) if d(4, "vanish") == 3 else None
        p["second_with"] = d(4, "second.with") == 3      # the same pool object is used by a second with-block
        p["raise_after"] = d(len(ops) + 1, "raise_at") if d(2, "raises") == 1 else None   # raise before op i / at the end
        p["multi_proc_flag"] = False
    elif p["family"] == "tmp-fork":
        # a pool constructed in one process and used (with-statement, creates, exit) in a REAL forked child; or a
        # bystander child that inherits a pool holding files and simply exits the ordinary way (fresh interpreter)
        p["bystander_exit"] = d(3, "bystander") == 2
        p["creates"] = 1 + d(3, "creates")
        p["child_raises"] = d(2, "child.raises") == 1
        p["parent_creates_first"] = d(2, "parent.first")
    elif p["family"] == "filepool":
        n = [1, 2, 3, 4, 5, 0, 1, 2][d(8, "files")]       # an EMPTY set of files is a set of files too
        # the paths may be given as any iterable; one-shot forms only when the pool is entered once
        p["files_form"] = ["list", "tuple", "generator", "iterator", "list"][d(5, "files.form")]
        p["relative_paths"] = d(4, "relative.paths") == 3     # paths relative to the working directory
        p["modes"] = ["r", "w", "a", "rb", "r", "r+", "rb+", "wb", "w+", "ab", "a+b", "br", "wb+"][d(13, "mode")]
        p["n_files"] = n
        p["raise_after"] = d(n + 1, "raise_at") if d(2, "raises") == 1 else None
        p["reenter"] = d(3, "reenter") == 2
        # fault: one of the files is missing when the pool is entered for the first time (r modes), the error
        # propagates; the file then appears and the same pool object is used again
        # an unusual member of the set: a device file that can be written but not synced or seeked
        p["dev_null_at"] = d(max(1, n - 1), "devnull.at") if (d(4, "devnull") == 3 and p["modes"] in ("w", "a") and n >= 2) else None
        # fault: a full disk under one member (/dev/full: writes are buffered, the flush inside close() fails with
        # ENOSPC): leaving the context may raise that error, but EVERY handle must be closed all the same
        p["dev_full_at"] = d(n, "devfull.at") if (d(4, "devfull") == 3 and p["modes"] in ("w", "a", "wb", "ab", "w+") and n >= 2
                                                  and p["dev_null_at"] is None) else None
        p["missing_at_first_enter"] = d(n, "missing.which") if (d(4, "missing") == 3 and p["modes"] in ("r", "rb") and n >= 1) else None
        if p["reenter"] or p["missing_at_first_enter"] is not None:
            p["files_form"] = "list" if p["files_form"] in ("generator", "iterator") else p["files_form"]
    else:
        p["children"] = 1 + d(3, "children")
        p["child_creates"] = [1 + d(3, "child.creates") for _ in range(p["children"])]
        # a child may also remove files of its own through the pool (concurrently with removes of other processes)
        p["child_removes"] = [d(n + 1, "child.removes") if d(2, "child.removes.any") else 0 for n in p["child_creates"]]
        ops = []
        for _ in range(d(8, "ops") + 1):
            k = d(8, "op")
            if k <= 2:
                ops.append(["create"])
            elif k == 3:
                ops.append(["remove", d(6, "idx")])
            elif k in (4, 5):
                ops.append(["flush"])
            else:
                ops.append(["listing"])
        p["ops"] = ops
        # fork point of every child: index into the parent's op list (children start before that op)
        p["fork_at"] = [d(len(ops) + 1, "fork_at") for _ in range(p["children"])]
        p["join_at"] = d(3, "join_at")   # 0: join right before leaving the context, 1: + flush after join, 2: join early
        p["raise_at_end"] = d(4, "raises") == 3
        # a second thread of the parent that creates files too (the parent forks children meanwhile)
        p["helper_thread_creates"] = [0, 0, 1, 2][d(4, "helper.thread")]
        p["second_with"] = d(4, "second.with") == 3      # the same multi_proc pool object is used by a second with-block
        p["pre_creates"] = [0, 0, 1, 2][d(4, "pre_creates")]     # create() calls before the with statement is entered
        p["granularity"] = "line" if d(5, "granularity") != 4 else "sync"
    return p


# ----------------------------------------------------------------------------------------
# single process families

def open_fds():
    return set(os.listdir("/proc/self/fd"))


def run_tmp_single(plan, tmpdir):
    import windpyutils.files as files
    viol = []
    fds_before = open_fds()
    created = []          # every path ever returned
    model = []            # created and not removed
    ext_deleted = set()
    removed_paths = []
    stats = {"ops": 0}

    def v(site, msg):
        viol.append({"class": "tmp-pool", "site": site, "message": msg})

    def check(pool, where, inside=True):
        if inside:
            listing = [pool[i] for i in range(len(pool))]
            if sorted(listing) != sorted(model):
                v("listing", f"{where}: pool lists {len(listing)} paths, model has {len(model)}")
        for pth in created:
            should = pth in model and pth not in ext_deleted
            if os.path.exists(pth) != should:
                v("disk:" + ("missing" if should else "left-behind"), f"{where}: {os.path.basename(pth)} exists={os.path.exists(pth)} expected {should}")

    d = tmpdir if plan["use_dir"] else None
    raised = None
    pool = files.TmpPool(d)
    if plan.get("vanish_before_remove"):
        real_os = files.os
        counter = {"n": 0}

        class OsShim:
            path = real_os.path

            def remove(self, pth):
                counter["n"] += 1
                if counter["n"] == plan["vanish_before_remove"] and real_os.path.exists(pth):
                    real_os.remove(pth)          # somebody else was faster
                    ext_deleted.add(pth)
                    stats["vanished"] = stats.get("vanished", 0) + 1
                return real_os.remove(pth)

            def __getattr__(self, name):
                return getattr(real_os, name)

        files.os = OsShim()
    try:
        for _ in range(plan.get("pre_creates", 0)):
            pth = pool.create()
            created.append(pth)
            model.append(pth)
        with pool:
            check(pool, "after entering the context")
            for i, op in enumerate(plan["ops"]):
                if plan["raise_after"] is not None and i == plan["raise_after"]:
                    raise BodyError(f"body raised before op {i}")
                stats["ops"] += 1
                k = op[0]
                if k == "create":
                    pth = pool.create()
                    if pth in created:
                        v("duplicate-path", f"create() returned {pth} twice")
                    if not os.path.isfile(pth):
                        v("create:not-a-file", pth)
                    created.append(pth)
                    model.append(pth)
                elif k == "remove":
                    if model:
                        pth = model[op[1] % len(model)]
                        pool.remove(pth)
                        model.remove(pth)
                        removed_paths.append(pth)
                elif k == "remove_again":
                    if removed_paths:
                        try:
                            pool.remove(removed_paths[-1])
                        except ValueError:
                            pass   # refusing a path the pool does not hold is fine; state must stay consistent
                elif k == "external_delete":
                    live = [x for x in model if x not in ext_deleted]
                    if live:
                        pth = live[op[1] % len(live)]
                        os.remove(pth)
                        ext_deleted.add(pth)
                elif k == "flush":
                    pool.flush()
                    model.clear()
                elif k == "listing":
                    pass
                check(pool, f"after op {i} {k}")
            if plan["raise_after"] is not None and plan["raise_after"] >= len(plan["ops"]):
                raise BodyError("body raised at the end")
    except BodyError as e:
        raised = e
    except Exception as e:  # noqa
        import traceback
        v(f"exception:{type(e).__name__}", repr(e) + traceback.format_exc()[-500:])
    if plan["raise_after"] is not None and raised is None and not viol:
        v("exception-swallowed", "the exception raised by the with-body did not propagate")
    model.clear()
    check(pool, "after the with block", inside=False)
    if plan.get("second_with") and raised is None and not viol:
        try:
            with pool:
                pth = pool.create()
                created.append(pth)
                model.append(pth)
                check(pool, "inside the second with block")
            model.clear()
            check(pool, "after the second with block", inside=False)
        except Exception as e:  # noqa
            v(f"second-with:{type(e).__name__}", "the same pool object used by a second with-block: " + repr(e))
    leaked = len(open_fds() - fds_before)
    if leaked:
        v("descriptor-leak", f"{leaked} file descriptors opened by the pool are still open after the with block "
                             f"({len(created)} files were created)")
    left = [p_ for p_ in created if os.path.exists(p_)]
    for p_ in left:
        try:
            os.remove(p_)
        except OSError:
            pass
    return viol, stats


BYSTANDER = r"""
import os, sys
sys.path.insert(0, sys.argv[1])
from windpyutils.files import TmpPool
d, n = sys.argv[2], int(sys.argv[3])
pool = TmpPool(d)
made = [pool.create() for _ in range(n)]
pid = os.fork()
if pid == 0:
    sys.exit(0)          # a child that has nothing to do with the pool leaves the ordinary way
os.waitpid(pid, 0)
listed = [pool[i] for i in range(len(pool))]
ok = sorted(listed) == sorted(made) and all(os.path.exists(p) for p in made)
print("LISTED", len(listed), "EXIST", sum(os.path.exists(p) for p in made))
pool.flush()
left = [p for p in made if os.path.exists(p)]
print("LEFT", len(left))
sys.exit(0 if ok and not left else 5)
"""


def run_bystander(plan, tmpdir):
    import subprocess
    import sys
    n = plan["creates"]
    out = subprocess.run([sys.executable, "-c", BYSTANDER, runner.REPO_ROOT, tmpdir, str(n)], capture_output=True,
                         text=True, timeout=60)
    viol = []
    if out.returncode != 0:
        viol.append({"class": "tmp-pool", "site": "fork:bystander-exit",
                     "message": f"a pool holding {n} files, a forked child that just exits: {out.stdout.strip()!r} "
                                f"{out.stderr.strip()[-200:]!r}"})
    return viol, {"ops": n + 3}


def run_tmp_fork(plan, tmpdir):
    """Real fork: the pool object is constructed in the parent, the with-statement runs in the child."""
    import windpyutils.files as files
    if plan.get("bystander_exit"):
        return run_bystander(plan, tmpdir)
    viol = []
    d = tmpdir
    pool = files.TmpPool(d)
    pre = [pool.create()] if plan["parent_creates_first"] else []
    r, w = os.pipe()
    pid = os.fork()
    if pid == 0:
        code = 0
        try:
            os.close(r)
            made = []
            try:
                with pool:
                    for _ in range(plan["creates"]):
                        made.append(pool.create())
                    os.write(w, ("\n".join(made)).encode())
                    if plan["child_raises"]:
                        raise BodyError("child body")
            except BodyError:
                pass
        except BaseException:  # noqa
            code = 3
        finally:
            os._exit(code)
    os.close(w)
    data = b""
    while True:
        b = os.read(r, 65536)
        if not b:
            break
        data += b
    os.close(r)
    _, status = os.waitpid(pid, 0)
    made = [x for x in data.decode().split("\n") if x]
    if os.waitstatus_to_exitcode(status) != 0:
        viol.append({"class": "tmp-pool", "site": "fork:child-failed", "message": f"child exit status {status}"})
    if len(made) != plan["creates"] or len(set(made)) != len(made):
        viol.append({"class": "tmp-pool", "site": "fork:create", "message": f"child created {made}"})
    left = [p_ for p_ in made + pre if os.path.exists(p_)]
    # the files created inside the child's with-block, and those the pool already held when the child entered it,
    # are the child's to remove when it leaves the block (normally or through the exception)
    if left:
        viol.append({"class": "tmp-pool", "site": "fork:left-behind",
                     "message": f"{len(left)} files left after the with block of the forked child "
                                f"(child created {len(made)}, held before the fork {len(pre)})"})
    for p_ in left:
        try:
            os.remove(p_)
        except OSError:
            pass
    return viol, {"ops": plan["creates"] + 2}


def run_filepool(plan, tmpdir):
    import windpyutils.files as files
    viol = []

    def v(site, msg):
        viol.append({"class": "file-pool", "site": site, "message": msg})

    paths = []
    for i in range(plan["n_files"]):
        pth = os.path.join(tmpdir, f"f{i}.txt")
        with open(pth, "w") as f:
            f.write(f"content {i}\n")
        paths.append(pth)
    if plan.get("relative_paths"):
        os.chdir(tmpdir)        # this process is the private child of one run
        paths = [os.path.basename(p_) for p_ in paths]
    import stat

    def is_char_device(pth):
        try:
            return stat.S_ISCHR(os.stat(pth).st_mode)
        except OSError:
            return False
    # the device files are used only where the platform has them (otherwise the run is an ordinary one)
    if plan.get("dev_null_at") is not None and is_char_device("/dev/null"):
        paths[plan["dev_null_at"]] = "/dev/null"
    if plan.get("dev_full_at") is not None and is_char_device("/dev/full"):
        paths[plan["dev_full_at"]] = "/dev/full"
    handed = []
    enospc = [0]
    fds_before = open_fds()
    mode = plan["modes"]
    form = plan.get("files_form", "list")
    given = {"list": list(paths), "tuple": tuple(paths), "generator": (x for x in paths), "iterator": iter(list(paths))}[form]
    pool = files.FilePool(given, mode)
    rounds = 2 if plan["reenter"] else 1
    miss = plan.get("missing_at_first_enter")
    if miss is not None:
        os.rename(paths[miss], paths[miss] + ".away")
        try:
            with pool:
                v("enter-with-missing-file", "entering the pool with a missing file did not raise")
        except OSError:
            pass
        except Exception as e:  # noqa
            v(f"exception:{type(e).__name__}", "failed enter: " + repr(e))
        leaked = len(open_fds() - fds_before)
        if leaked:
            v("descriptor-leak-after-failed-enter", f"{leaked} files opened before the failing member are still open "
                                                    f"although the with statement was never entered")
        os.rename(paths[miss] + ".away", paths[miss])
    for r in range(rounds):
        raised = None
        try:
            with pool as fp_:
                if len(fp_) != len(paths):
                    v("len", f"len={len(fp_)} for {len(paths)} paths")
                if sorted(iter(fp_)) != sorted(paths):
                    v("iter", "iteration does not list the given paths")
                for i, pth in enumerate(paths):
                    if plan["raise_after"] is not None and i == plan["raise_after"]:
                        raise BodyError("body")
                    h = fp_[pth]
                    handed.append(h)
                    if h.closed:
                        v("closed-inside", pth)
                    binary = "b" in mode
                    if "r" in mode:
                        data = h.read()
                        if pth != "/dev/null" and (data if isinstance(data, str) else data.decode()) != f"content {i}\n":
                            v("content", pth)
                    else:
                        h.write(b"x" if binary else "x")
                if plan["raise_after"] is not None and plan["raise_after"] >= len(paths):
                    raise BodyError("body end")
        except BodyError as e:
            raised = e
        except OSError as e:
            import errno
            if "/dev/full" in paths and e.errno == errno.ENOSPC:
                raised = e      # the injected full disk surfaced while the handles were closed: legitimate
                enospc[0] += 1
            else:
                v(f"exception:{type(e).__name__}", repr(e))
        except Exception as e:  # noqa
            v(f"exception:{type(e).__name__}", repr(e))
        if plan["raise_after"] is not None and raised is None and not viol:
            v("exception-swallowed", "body exception did not propagate")
        for h in handed:
            if not h.closed:
                v("handle-left-open", f"{h.name} mode {mode} round {r}")
                h.close()
        try:
            pool["whatever"]
            v("usable-after-exit", "pool[...] works after leaving the context")
        except RuntimeError:
            pass
        except KeyError:
            v("usable-after-exit", "pool still holds handles after leaving the context")
        leaked = len(open_fds() - fds_before)
        if leaked and not any(x["site"] == "handle-left-open" for x in viol):
            v("descriptor-leak", f"{leaked} file descriptors are still open after leaving the FilePool context")
    return viol, {"ops": len(handed), "enospc_at_close": enospc[0]}


# ----------------------------------------------------------------------------------------
# multi process family (engine A)

def scenario_multi(k: Kernel, plan, obs):
    import windpyutils.files as files
    ctx = SimContext(k)

    class MP:
        Manager = staticmethod(ctx.Manager)

        def __getattr__(self, name):
            import multiprocessing
            return getattr(multiprocessing, name)

    files.multiprocessing = MP()
    from sim.prims import install_threading_shims
    from sim.kernel import patch_threading
    patch_threading(k)      # a thread the code under test may start becomes a task of the kernel
    install_threading_shims(k, [files])
    log = Log()
    obs["log"] = log
    tmpdir = obs["tmpdir"]
    d = tmpdir if plan["use_dir"] else None

    class Child(ctx.Process):
        sim_role = "child"

        def __init__(self, pool, n, who):
            super().__init__()
            self.pool = pool
            self.n = n
            self.who = who

        def run(self):
            mine = []
            for _ in range(self.n):
                pth = self.pool.create()
                log.created.append((self.who, pth))
                mine.append(pth)
                k.switch("child.pause")
            for pth in mine[:self.n_remove]:
                try:
                    self.pool.remove(pth)
                except ValueError:
                    # not in the pool any more: legitimate only if a flush() of the parent took it meanwhile
                    # (then the file is gone as well)
                    if not any(o[0] == "flush" for o in plan["ops"]) or os.path.exists(pth):
                        raise
                log.removed.append(pth)
                if os.path.exists(pth):
                    viol.append({"class": "tmp-pool-multi", "site": "removed-file-exists",
                                 "message": f"{self.who}: remove() returned but the file is still there"})
                k.switch("child.pause")

    pool = files.TmpPool(d, multi_proc=True)
    model = []
    removed = set()
    children = []
    started = 0
    viol = obs["viol"]

    def start_due(i):
        nonlocal started
        for c, at in enumerate(plan["fork_at"]):
            if at == i and c not in [x[0] for x in children]:
                ch = Child(pool, plan["child_creates"][c], f"child{c}")
                ch.n_remove = plan.get("child_removes", [0] * 9)[c]
                ch.start()
                children.append((c, ch))

    def join_all():
        for c, ch in children:
            ch.join()
        obs["joined"] = True

    raised = None
    helper = None
    for _ in range(plan.get("pre_creates", 0)):
        pth = pool.create()
        log.created.append(("parent-before-with", pth))
        model.append(pth)
    try:
        with pool:
            obs["phase"] = "inside"
            if plan.get("pre_creates") and len(pool) != plan["pre_creates"]:
                viol.append({"class": "tmp-pool-multi", "site": "listing-after-enter",
                             "message": f"{plan['pre_creates']} files were created before the with statement, the pool lists {len(pool)}"})
            if plan.get("helper_thread_creates"):
                import threading
                from sim.kernel import patch_threading
                patch_threading(k)

                def helper_body():
                    for _ in range(plan["helper_thread_creates"]):
                        pth = pool.create()
                        log.created.append(("parent-thread", pth))
                        k.switch("helper.pause")

                helper = threading.Thread(target=helper_body)
                helper.start()
            for i, op in enumerate(plan["ops"]):
                start_due(i)
                if plan["join_at"] == 2 and i == len(plan["ops"]) // 2 + 1:
                    join_all()
                kind = op[0]
                if kind == "create":
                    pth = pool.create()
                    log.created.append(("parent", pth))
                    model.append(pth)
                elif kind == "remove":
                    if model:
                        pth = model[op[1] % len(model)]
                        pool.remove(pth)
                        model.remove(pth)
                        removed.add(pth)
                elif kind == "flush":
                    # quiescent only if every child had been started and had finished before the flush began
                    # (no yield in this test)
                    quiescent = len(children) == plan["children"] and all(ch._popen.task.done for _, ch in children) \
                        and (helper is None or helper._sim_task.done)      # ... and so had the parent's helper thread
                    pool.flush()
                    model.clear()
                    if quiescent:
                        left = [p_ for w, p_ in log.created if os.path.exists(p_)]
                        if left:
                            viol.append({"class": "tmp-pool-multi", "site": "left-after-flush",
                                         "message": f"flush() with all children finished left {len(left)} files: "
                                                    f"{[w for w, p_ in log.created if os.path.exists(p_)]}"})
                elif kind == "listing":
                    n = len(pool)
                    if not children and not plan.get("helper_thread_creates") and n != len(model):
                        viol.append({"class": "tmp-pool-multi", "site": "listing", "message": f"len={n} model={len(model)}"})
            start_due(len(plan["ops"]))
            if helper is not None:
                helper.join()
            join_all()
            if not any(o[0] == "flush" for o in plan["ops"]):
                # everybody has finished and nothing was flushed: the pool must list exactly what the parent and the
                # children created, minus what the parent removed
                listing = sorted(pool[i] for i in range(len(pool)))
                expected = sorted(set(p_ for _, p_ in log.created) - removed - set(log.removed))
                if listing != expected:
                    viol.append({"class": "tmp-pool-multi", "site": "listing-after-children",
                                 "message": f"pool lists {len(listing)} paths, {len(expected)} were created and not removed "
                                            f"(by {sorted({w for w, p_ in log.created})})"})
            if plan["join_at"] == 1:
                pool.flush()
                left = [w for w, p_ in log.created if os.path.exists(p_)]
                if left:
                    viol.append({"class": "tmp-pool-multi", "site": "left-after-flush",
                                 "message": f"flush() after all children finished left files of {left}"})
            obs["phase"] = "leaving"
            if plan["raise_at_end"]:
                raise BodyError("body")
    except BodyError as e:
        raised = e
    obs["phase"] = "left"
    if plan.get("second_with") and not viol:
        try:
            with pool:
                pth = pool.create()
                log.created.append(("parent", pth))
                if len(pool) != 1:
                    viol.append({"class": "tmp-pool-multi", "site": "second-with:listing", "message": f"len={len(pool)}"})
                # the pool is shared with child processes in its second context as well
                late = Child(pool, 1, "child-in-second-with")
                late.n_remove = 0
                late.start()
                late.join()
                if len(pool) != 2:
                    viol.append({"class": "tmp-pool-multi", "site": "second-with:listing-after-child",
                                 "message": f"the parent and a child created one file each, the pool lists {len(pool)}"})
        except Exception as e:  # noqa
            viol.append({"class": "tmp-pool-multi", "site": f"second-with:{type(e).__name__}",
                         "message": "the same multi_proc pool object used by a second with-block: " + repr(e)})
    if plan["raise_at_end"] and raised is None:
        viol.append({"class": "tmp-pool-multi", "site": "exception-swallowed", "message": "body exception lost"})
    left = [(w, p_) for w, p_ in log.created if os.path.exists(p_)]
    if left:
        viol.append({"class": "tmp-pool-multi", "site": "left-after-exit",
                     "message": f"after leaving the context {len(left)} files still exist, created by {sorted({w for w, _ in left})}"})
    paths = [p_ for _, p_ in log.created]
    if len(set(paths)) != len(paths):
        viol.append({"class": "tmp-pool-multi", "site": "duplicate-path", "message": "create() returned a path twice"})
    for _, p_ in left:
        try:
            os.remove(p_)
        except OSError:
            pass


class Spec:
    PROPERTY = "C20"
    ENGINE = ("A (tmp-multi family: baton kernel, simulated Manager list proxy, child processes as tasks on fork-like "
              "copies) and C-style single-process histories with exception injection (tmp-single, filepool families)")
    FILES = FILES
    REAL = ["windpyutils.files.TmpPool", "windpyutils.files.FilePool", "tempfile.NamedTemporaryFile", "real files"]
    STUBBED = ["multiprocessing.Manager().list() (per-call atomic list proxy) in the multi family",
               "child process creation (kernel task on a fork-like copy of the pool)"]
    ASSUMPTIONS = [
        "all children have finished before the context is left (the stated situation)",
        "external deletion of a listed file is an environment fault: the pool must tolerate it, the disk expectation "
        "excludes that file",
        "files given to FilePool can all be opened in the chosen mode",
        "sampling, not enumeration",
    ]
    PROBES = ["child-forked-before-flush", "exception-in-body", "external-delete", "multi-runs", "failed-enter-then-retry",
              "file-vanished-before-remove", "real-fork"]
    RULE = ("one run = drawn family (tmp-single / filepool / tmp-multi), seeded operation history, exception position, "
            "fork points of the children relative to the parent's history and (multi) a seeded schedule with line-level "
            "pre-emption; non-trivial = a history with at least 3 operations (single) or at least two tasks runnable at "
            "once plus a pre-emption (multi); distinct = distinct hash of the plan (single) or sync-order signature (multi)")

    def runs(self, tier):
        return 8000 if tier == "quick" else 300000

    def wall_budget(self, tier):
        return 150 if tier == "quick" else 3000

    def prepare(self):
        import windpyutils.files  # noqa

    def run(self, tier, run_seed, replay, trace, emit):
        import hashlib
        import json
        choice = Choice(run_seed, replay)
        plan = build_plan(choice, tier)
        tmpdir = tempfile.mkdtemp(prefix="verif-c20-")
        if plan["family"] != "tmp-multi":
            try:
                if plan["family"] == "tmp-single":
                    viol, stats = run_tmp_single(plan, tmpdir)
                elif plan["family"] == "tmp-fork":
                    viol, stats = run_tmp_fork(plan, tmpdir)
                else:
                    viol, stats = run_filepool(plan, tmpdir)
                leftovers = os.listdir(tmpdir) if plan["family"] == "tmp-single" else []
                if leftovers and not any(x["site"].startswith("disk") for x in viol):
                    viol.append({"class": "tmp-pool", "site": "disk:left-behind", "message": f"directory still holds {leftovers}"})
            finally:
                shutil.rmtree(tmpdir, ignore_errors=True)
            viol = dedup(viol)
            h = hashlib.sha256(json.dumps(plan, sort_keys=True).encode()).hexdigest()
            probes = {}
            if plan.get("raise_after") is not None:
                probes["exception-in-body"] = 1
            if any(o[0] == "external_delete" for o in plan.get("ops", [])):
                probes["external-delete"] = 1
            if plan.get("missing_at_first_enter") is not None:
                probes["failed-enter-then-retry"] = 1
            if stats.get("vanished"):
                probes["file-vanished-before-remove"] = stats["vanished"]
            if plan["family"] == "tmp-fork":
                probes["real-fork"] = 1
            faults = {}
            if probes.get("exception-in-body"):
                faults["exception-in-body"] = 1
            for kf in ("external-delete", "failed-enter-then-retry", "file-vanished-before-remove"):
                if probes.get(kf):
                    faults[kf] = probes[kf]
            if stats.get("enospc_at_close"):
                faults["disk-full-at-close"] = stats["enospc_at_close"]
            emit({"verdict": "violation" if viol else "ok", "violations": viol, "digest": h, "signature": h[:16],
                  "steps": stats["ops"], "switches": 0, "preemptions": 0, "sync_events": stats["ops"], "max_live": 1,
                  "probes": probes, "faults": faults,
                  "strategy": "sequential", "nontrivial": stats["ops"] >= 3, "plan": plan,
                  "streams": choice.streams(), "end": "complete", "trace": [json.dumps(plan)] if trace else None})
            return
        strategy = make_strategy(choice, 300)
        obs = {"tmpdir": tmpdir, "viol": [], "phase": "init"}

        def on_end(kind, info):
            if kind == "unsupported":
                emit({"verdict": "harness-error", "message": "simulated environment lacks something the code asked for: "
                      + str(info.get("exc"))})
            from props.poolsim import stall_site, compress_trace
            viol = list(obs["viol"])
            if kind == "stall":
                viol.append({"class": "stall", "site": stall_site(info), "message": str(info["blocked"])})
            elif kind == "crash":
                viol.append({"class": "exception", "site": f"{info.get('exc_type')}@{obs['phase']}",
                             "message": info.get("exc", "") + info.get("traceback", "")[-600:]})
            for name, exc, tb in k.task_errors:
                viol.append({"class": "task-died", "site": name.split("#")[0] + ":" + exc.split("(")[0], "message": exc})
            shutil.rmtree(tmpdir, ignore_errors=True)
            if kind == "capped":
                emit({"verdict": "inconclusive"})
            viol = dedup(viol)
            probes = {"multi-runs": 1}
            flush_idx = [i for i, o in enumerate(plan["ops"]) if o[0] == "flush"]
            if any(at <= fi for at in plan["fork_at"] for fi in flush_idx):
                probes["child-forked-before-flush"] = 1
            if plan["raise_at_end"]:
                probes["exception-in-body"] = 1
            res = {"verdict": "violation" if viol else "ok", "violations": viol, "digest": k.digest(),
                   "signature": k.signature(), "steps": k.step, "switches": k.switches, "preemptions": k.preemptions,
                   "sync_events": k.sync_events, "max_live": k.max_live, "abstract_states": sorted(k.abstract_states), "probes": probes, "faults": k.faults,
                   "strategy": strategy.name, "nontrivial": k.max_live >= 2 and k.preemptions >= 1,
                   "plan": {**plan, "strategy": strategy.describe()}, "streams": choice.streams(), "end": kind,
                   "stalled": kind == "stall"}
            if trace:
                res["trace"] = compress_trace(k.trace_events)
            emit(res)

        k = Kernel(choice, strategy, on_end, trace_root=os.path.join(runner.REPO_ROOT, "windpyutils"),
                   granularity=plan["granularity"])
        if trace:
            k.trace_events = []
        k.run(lambda: scenario_multi(k, plan, obs))


def dedup(viol):
    seen = set()
    out = []
    for x in viol:
        key = (x["class"], x["site"])
        if key not in seen:
            seen.add(key)
            out.append(x)
    return out


SPEC = Spec()
