#!/venv/bin/python
"""Markdown table of the kept seeded changes for DESIGN.md section 9 (from seeded/*/meta.json, RESULTS.json, HISTORY.json)."""
import json
import os
ROOT = "/verif/seeded"
res = json.load(open(os.path.join(ROOT, "RESULTS.json"))) if os.path.exists(os.path.join(ROOT, "RESULTS.json")) else {}
hist = json.load(open(os.path.join(ROOT, "HISTORY.json")))
print("| id | breaks | what it needs to manifest | caught by (class / site of the first report) | missed at first? |")
print("|---|---|---|---|---|")
for sid in sorted(d for d in os.listdir(ROOT) if os.path.isdir(os.path.join(ROOT, d)) and d != "retired"):
    m = json.load(open(os.path.join(ROOT, sid, "meta.json")))
    r = res.get(sid, {})
    caught = []
    for c, v in r.items():
        if isinstance(v, dict) and v.get("exit") == 1:
            fv = v.get("first_violation", "")
            cls = fv.split("class=")[1].split(" ")[0] if "class=" in fv else "?"
            site = fv.split("site=")[1].split(" runs=")[0] if "site=" in fv else "?"
            caught.append(f"**{c}** {cls} / {site[:70]}")
        elif isinstance(v, dict):
            caught.append(f"{c}: not reported")
    if not m.get("checks_expected_to_detect"):
        caught = ["**not detected** - " + (m.get("why_not_detected") or "")]
    h = hist.get(sid, {})
    miss = ("yes – " + h.get("strengthened", "")) if h.get("missed_at_first") else "no"
    cell = lambda t: str(t).replace("|", "/").replace("\n", " ")
    print(f"| {sid} | {m['breaks_property']} | {cell(m['needs_to_manifest'])} | {cell('; '.join(caught) or 'n/a')} | {cell(miss)} |")
