#!/venv/bin/python
"""Run the registered checks against every kept seeded change (scratch copy + VERIF_REPO; /repo is not touched).
usage: run_seeded.py [ids...]   ->  prints a matrix and writes seeded/RESULTS.json"""
import concurrent.futures
import json
import os
import shutil
import subprocess
import sys
import tempfile
import time

ROOT = "/verif/seeded"


def one(sid):
    meta = json.load(open(os.path.join(ROOT, sid, "meta.json")))
    scratch = tempfile.mkdtemp(prefix="verif-seeded-")
    out = {}
    try:
        shutil.copytree("/repo/windpyutils", os.path.join(scratch, "windpyutils"))
        ap = subprocess.run(["patch", "-p1", "-s", "-d", scratch, "-i", os.path.join(ROOT, sid, "patch.diff")],
                            capture_output=True, text=True)
        if ap.returncode != 0:
            return sid, {"error": "patch does not apply: " + (ap.stdout + ap.stderr)[-300:]}
        if not meta["checks_expected_to_detect"]:
            # a documented miss: run the property's own check anyway, to notice if it ever starts to be reported
            out["_documented_miss"] = meta.get("why_not_detected", "")
        for c in meta["checks_expected_to_detect"] or [meta["breaks_property"]]:
            env = dict(os.environ, VERIF_REPO=scratch, VERIF_EVIDENCE_DIR=scratch + "/ev", VERIF_REPLAY_DIR=scratch + "/rp")
            if os.environ.get("RATE"):
                # the whole batch, another seed: HOW MANY runs report the change (one run in a batch is luck)
                env.update(VERIF_KEEP_GOING="1", VERIF_SEED=os.environ.get("RATE_SEED", "3"))
            t0 = time.time()
            p = subprocess.run(["/verif/check", c, os.environ.get("TIER", "quick")], env=env, capture_output=True, text=True, timeout=3600)
            first = [l for l in p.stdout.split("\n") if l.startswith("violation ")]
            out[c] = {"exit": p.returncode, "wall_s": round(time.time() - t0, 1),
                      "first_violation": first[0][:200] if first else ""}
            if os.environ.get("RATE"):
                import re
                mm = re.search(r"runs=(\d+) .*violation_runs=(\d+)", p.stdout)
                if mm:
                    out[c]["runs"], out[c]["reporting_runs"] = int(mm.group(1)), int(mm.group(2))
    finally:
        shutil.rmtree(scratch, ignore_errors=True)
    return sid, out


def main():
    ids = sys.argv[1:] or sorted(d for d in os.listdir(ROOT) if os.path.isdir(os.path.join(ROOT, d)) and d != "retired")
    results = {}
    with concurrent.futures.ThreadPoolExecutor(max_workers=int(os.environ.get("PAR", "3"))) as ex:
        for sid, out in ex.map(one, ids):
            results[sid] = out
            print(sid, json.dumps(out)[:400], flush=True)
    path = os.path.join(ROOT, "RESULTS_RATE.json" if os.environ.get("RATE") else "RESULTS.json")
    old = json.load(open(path)) if os.path.exists(path) else {}
    old.update(results)
    json.dump(old, open(path, "w"), indent=1, sort_keys=True)
    missed = [s for s, o in results.items() if "_documented_miss" not in o and
              ("error" in o or not any(isinstance(v, dict) and v.get("exit") == 1 for v in o.values()))]
    documented = [s for s, o in results.items() if "_documented_miss" in o]
    if documented:
        print(f"documented misses (outside the property's quantifier or not soundly decidable): {documented}")
    print(f"{len(results)} seeded changes, {len(missed)} not detected: {missed}")
    return 1 if missed else 0


if __name__ == "__main__":
    sys.exit(main())
