#!/venv/bin/python
"""Confirm a sub-agent's seeded change and run our checks against it.

usage: confirm_seeded.py <PROP> <worktree> <change_dir> [check props...]
Steps (all inside the scratch worktree, never /repo):
  1. demo.py on the clean worktree            -> must exit 0
  2. git apply patch.diff; demo.py            -> must exit != 0 (or hit its own watchdog)
  3. relevant test files (or full suite with FULL=1) with the change -> must pass
  4. ./check <P> quick with VERIF_REPO=<worktree> for each requested property -> exit 1 expected
  5. git checkout -- .  (worktree clean again)
Prints a JSON summary.
"""
import json
import os
import subprocess
import sys
import time

TESTS = {
    "windpyutils/files.py": ["tests/test_files.py"],
    "windpyutils/parallel/storage.py": ["tests/test_storage.py"],
    "windpyutils/parallel/own_proc_pools.py": ["tests/test_own_proc_pools.py", "tests/test_storage.py"],
    "windpyutils/parallel/pools.py": ["tests/test_pools.py"],
    "windpyutils/parallel/maps.py": ["tests/test_parallel_maps.py"],
    "windpyutils/parallel/workers.py": ["tests/test_parallel_workers.py", "tests/test_parallel_maps.py"],
    "windpyutils/buffers.py": ["tests/test_buffers.py", "tests/test_own_proc_pools.py", "tests/test_pools.py"],
}


def run(cmd, cwd, timeout, env=None, out=None):
    e = dict(os.environ)
    e.update(env or {})
    t0 = time.time()
    with open(out or os.devnull, "w") as f:
        try:
            # own process group (so that leftovers can be killed), but not a session leader: demos may call setpgrp()
            p = subprocess.Popen(cmd, cwd=cwd, env=e, stdout=f, stderr=subprocess.STDOUT, process_group=0)
            code = p.wait(timeout=timeout)
        except subprocess.TimeoutExpired:
            import signal
            os.killpg(p.pid, signal.SIGKILL)
            code = -9
    try:
        import signal
        os.killpg(p.pid, signal.SIGKILL)   # leftover children (managers, workers)
    except Exception:  # noqa
        pass
    return code, time.time() - t0


def main():
    prop, wt, cdir = sys.argv[1], sys.argv[2], sys.argv[3]
    checks = sys.argv[4:] or [prop]
    patch = os.path.join(cdir, "patch.diff")
    demo = os.path.join(cdir, "demo.py")
    res = {"property": prop, "change": cdir}
    subprocess.run(["git", "-C", wt, "checkout", "--", "."], check=True)
    env = {"PYTHONPATH": wt, "PYTHONDONTWRITEBYTECODE": "1"}
    if os.path.exists(demo):
        res["demo_without"], _ = run(["/venv/bin/python", demo, wt], wt, 180, env, cdir + "/confirm_demo_without.log")
    ap = subprocess.run(["git", "-C", wt, "apply", patch], capture_output=True, text=True)
    if ap.returncode != 0:
        res["apply_error"] = ap.stderr[-400:]
        print(json.dumps(res))
        return
    try:
        files = subprocess.run(["git", "-C", wt, "diff", "--name-only"], capture_output=True, text=True).stdout.split()
        res["files"] = files
        if os.path.exists(demo):
            res["demo_with"], _ = run(["/venv/bin/python", demo, wt], wt, 180, env, cdir + "/confirm_demo_with.log")
        tests = sorted({t for f in files for t in TESTS.get(f, [])})
        if os.environ.get("FULL"):
            tests = []
        cmd = ["/venv/bin/python", "-m", "pytest", "-q", "-p", "no:cacheprovider", "--timeout=900", "-x"] + tests
        res["tests"] = tests or "full suite"
        res["tests_exit"], res["tests_s"] = run(cmd, wt, 2400, env, cdir + "/confirm_tests.log")
        res["checks"] = {}
        for c in checks:
            e2 = {"VERIF_REPO": wt, "VERIF_EVIDENCE_DIR": cdir + "/evidence", "VERIF_REPLAY_DIR": cdir + "/replays"}
            code, wall = run([os.environ.get("CHECK_BIN", "/verif/check"), c, "quick"], os.path.dirname(os.environ.get("CHECK_BIN", "/verif/check")), 1500, e2, cdir + f"/confirm_check_{c}.log")
            first = ""
            for line in open(cdir + f"/confirm_check_{c}.log"):
                if line.startswith("violation "):
                    first = line.strip()[:300]
                    break
            res["checks"][c] = {"exit": code, "wall_s": round(wall, 1), "first_violation": first}
    finally:
        subprocess.run(["git", "-C", wt, "checkout", "--", "."], check=True)
    print(json.dumps(res))


if __name__ == "__main__":
    main()
