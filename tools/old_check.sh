#!/bin/sh
# usage: old_check.sh <old-verif-dir> <seeded-id> <PROP>  - runs an OLDER version of the checks against a seeded change
OLD=$1; SID=$2; P=$3
S=$(mktemp -d /tmp/verif-old-XXXX); cp -r /repo/windpyutils $S/; patch -p1 -s -d $S -i /verif/seeded/$SID/patch.diff
VERIF_REPO=$S VERIF_EVIDENCE_DIR=$S/ev VERIF_REPLAY_DIR=$S/rp $OLD/check $P quick > $S/log 2>&1; echo "$SID $P old-check exit=$?"; rm -rf $S
