#!/bin/sh
# usage: confirm_free.sh <worktree> <outdir>  - each change_i has property.txt naming the property it breaks
W=$1; O=$2
for d in $W/$O/change_*; do
  P=$(tr -d ' \n' < $d/property.txt | cut -c1-3)
  EXTRA=""; case $P in C01|C02) EXTRA="C03";; C03) EXTRA="C02";; esac
  /verif/tools/confirm_seeded.py $P $W $d $P $EXTRA > $d/confirm.json 2>$d/confirm.err
done
echo done > $W/$O/confirm_done
