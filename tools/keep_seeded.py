#!/venv/bin/python
"""Copy a confirmed sub-agent change into /verif/seeded/<id>/ (patch.diff, demo.py, notes.md, meta.json).
usage: keep_seeded.py <id> <PROP> <change_dir> "<what it needs to manifest>" [detected_by ...]"""
import json
import os
import shutil
import sys

sid, prop, cdir, needs = sys.argv[1:5]
detected_by = sys.argv[5:] or [prop]
why = None
if detected_by and detected_by[0].startswith("NONE:"):
    why = " ".join(detected_by)[5:]
    detected_by = []
dst = os.path.join("/verif/seeded", sid)
os.makedirs(dst, exist_ok=True)
for f in ("patch.diff", "demo.py", "notes.md"):
    if os.path.exists(os.path.join(cdir, f)):
        shutil.copy(os.path.join(cdir, f), os.path.join(dst, f))
conf = json.load(open(os.path.join(cdir, "confirm.json")))
meta = {
    "id": sid,
    "breaks_property": prop,
    "source": "independent sub-agent given only the property text and a scratch worktree",
    "files": conf.get("files"),
    "needs_to_manifest": needs,
    "confirmed": {
        "demo_exit_without_change": conf.get("demo_without"),
        "demo_exit_with_change": conf.get("demo_with"),
        "tests_run_with_change": conf.get("tests"),
        "tests_exit_with_change": conf.get("tests_exit"),
        "how": "tools/confirm_seeded.py in a scratch worktree under /tmp: demo on clean tree, git apply patch.diff, demo, "
               "pytest on the test files of the touched modules, ./check <P> quick with VERIF_REPO=<worktree>, git checkout",
    },
    "checks_expected_to_detect": detected_by,
    "why_not_detected": why,
    "detection_at_confirmation": conf.get("checks"),
}
json.dump(meta, open(os.path.join(dst, "meta.json"), "w"), indent=1)
print("kept", sid)
