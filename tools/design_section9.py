#!/venv/bin/python
"""Regenerate section 9 of DESIGN.md (intro with measured counts + the table of tools/seeded_table.py)."""
import json, os, subprocess
ROOT = '/verif/seeded'
hist = json.load(open(f'{ROOT}/HISTORY.json'))
ids = [d for d in sorted(os.listdir(ROOT)) if os.path.isdir(f'{ROOT}/{d}') and d != 'retired']
retired = sorted(os.listdir(f'{ROOT}/retired'))
missed_first = [k for k, v in hist.items() if isinstance(v, dict) and v.get('missed_at_first') and k in ids]
doc = [i for i in ids if not json.load(open(f'{ROOT}/{i}/meta.json')).get('checks_expected_to_detect')]
table = subprocess.run(['/verif/tools/seeded_table.py'], capture_output=True, text=True).stdout
s = open('/verif/DESIGN.md').read()
a = s.index('## 9. Seeded changes: which check catches which change')
b = s.index('\n---------------------------------------------------------------------------------------\n\n## 10.')
text = f'''## 9. Seeded changes: which check catches which change

Independent sub-agents were given **only the text of one property (later rounds: of all ten claimed
properties) and a scratch git worktree** of the repository (under /tmp, nothing from /verif) and asked for
changes that break a property, still pass the existing tests and need something specific to manifest, each
with a demonstration that fails with the change and passes without it. Ten rounds: rounds 2–4 were told
what earlier rounds had produced and asked for different code locations, clauses and triggers (round 4: bugs
needing two or more ordering constraints); rounds 5–9 were free to choose the property (round 8 with one
emphasis per agent: interleavings, faults and retirements, harmless-looking refactorings, easily overlooked
clauses; in round 9 two of the four agents hunted for defects of the *unchanged* code instead – section 2; round 10, one property per agent again (C04, C12, C14, C20) with
the triggers named in the request: faults, multi-step histories, unusual inputs, two cooperating sites; all fourteen were reported by the quick checks as they stood. Two first confirmations of C04-s14
reported nothing because something else was switching the same worktree between patched and clean meanwhile – once its author,
still at work, once an earlier confirmation run of mine that had not ended; alone in a worktree of its own, and in a scratch
copy, the check reports the change in 8 of the first 70 runs – one confirmation per worktree at a time). Every change was
confirmed here before it was kept (`tools/confirm_seeded.py`, in the scratch worktree: demonstration on the
clean tree → exit 0; `git apply`; demonstration → non-zero; the test files of the touched modules → pass;
`./check <P> quick` with `VERIF_REPO=<worktree>`; `git checkout`). Kept changes live in `seeded/<id>/`
(`patch.diff`, `demo.py`, `notes.md`, `meta.json`); `tools/run_seeded.py` re-runs the registered checks
against all of them (scratch copy + patch, /repo untouched) and writes `seeded/RESULTS.json`
(`RATE=1`: the whole batch under another seed, counting the reporting runs → `seeded/RESULTS_RATE.json`).
The scratch worktrees were removed afterwards. After the repairs of rounds 8 and 9 (`0570568`, `0e1f71e`, `a7f16b0`,
`17aad70`, `797d431`) twenty-one patches no longer applied; they were re-based (`patch_as_produced.diff` keeps the
earlier form) and re-confirmed with their demonstrations.

**{len(ids)} changes kept**: {len(ids)-len(doc)} are reported by the checks (last full run: all of them, quick tier),
{len(doc)} are documented misses; {len(retired)} more are retired (`seeded/retired/`: produced against an earlier HEAD and
neutralised by a later repair – their own demonstrations pass on the current tree). The lesson of the
exercise is in the last column: **{len(missed_first)} changes were missed by the checks as they stood when the change was
produced** (measured by running the older commit of /verif against the patch, `tools/old_check.sh`, or by a
first confirmation pass against a snapshot of the checks). With a handful of exceptions the cause was never
the scheduler's reach but a *usage variant the workload did not exercise* (input as a generator or a deque,
zip-style consumption, a second call, a second `with`, a re-opened writer, a record subclass, `/dev/null` in
a file set, a fork between construction and `with`, a failing disk, a constant such as 64 / 1024 / 4096 that
small inputs never reach, an empty set of files, a line that ends with the line ending's own character, …);
each miss was answered by widening the workload, the fault model or the oracle
– never by special-casing the change – and several of the widenings exposed further genuine defects of the
original code (section 2: `e0554a8`, `f33bca9`, `f7a9910`; side observations of rounds 8 and 9 led to `0570568`,
`0e1f71e`, `a7f16b0`, `17aad70` and `797d431`). The scheduler-depth cases are C03-s12 and C03-s10
(three ordering constraints each): the thorough tier reports them within 700 and 3300 runs, a quick batch
usually. Some changes were labelled by their authors with a property whose check cannot see them
(a lost result that shows as a hang → C02/C03 instead of C01; a fork → C18 instead of C11; an edited object
→ C12 instead of C11): the table names the check that reports them.

Documented misses: **C01-s10** (needs two calls that overlap on one pool), **C03-s14** (a descriptor leak of
real `Process` objects over ~500 retirements; simulated processes hold no descriptors), **C04-s12** (not
soundly decidable: the original code has the same race one slot earlier), **C18-s9** (needs a multi-threaded
parent), **C18-s10** (needs application code inside the at-fork hook sequence), **C03-s16** (wrong only under the
`spawn`/`forkserver` start methods, which the simulator does not model) – reasons in their `meta.json`.

'''
s = s[:a] + text + table + s[b:]
open('/verif/DESIGN.md', 'w').write(s)
print(len(ids), len(doc), len(missed_first), len(retired))
