#!/venv/bin/python
"""Run the registered checks against behaviour-preserving changes (benign/<id>/patch.diff): scratch copy of /repo + patch,
every check whose files the patch touches, quick tier. A VIOLATION or a harness error here is a FALSE ALARM of the
machinery. usage: run_benign.py [ids...]   (PAR env: parallelism)"""
import concurrent.futures
import json
import os
import shutil
import subprocess
import sys
import tempfile
import time

ROOT = "/verif/benign"
CHECKS = {
    "windpyutils/parallel/own_proc_pools.py": ["C01", "C02", "C03", "C04", "C14"],
    "windpyutils/buffers.py": ["C01", "C03", "C05"],
    "windpyutils/parallel/pools.py": ["C05"],
    "windpyutils/parallel/maps.py": ["C05"],
    "windpyutils/parallel/workers.py": ["C05"],
    "windpyutils/parallel/storage.py": ["C14"],
    "windpyutils/files.py": ["C11", "C12", "C18", "C20"],
}


def one(bid):
    patch = os.path.join(ROOT, bid, "patch.diff")
    files = [l[6:].strip() for l in open(patch) if l.startswith("+++ b/")]
    checks = sorted({c for f in files for c in CHECKS.get(f, [])})
    if "windpyutils/parallel/own_proc_pools.py" in files and "C14" in checks and len(files) == 1:
        checks.remove("C14")
    scratch = tempfile.mkdtemp(prefix="verif-benign-")
    out = {}
    try:
        shutil.copytree("/repo/windpyutils", os.path.join(scratch, "windpyutils"))
        ap = subprocess.run(["patch", "-p1", "-s", "-d", scratch, "-i", patch], capture_output=True, text=True)
        if ap.returncode != 0:
            return bid, {"error": "patch does not apply: " + (ap.stdout + ap.stderr)[-300:]}
        for c in checks:
            env = dict(os.environ, VERIF_REPO=scratch, VERIF_EVIDENCE_DIR=scratch + "/ev", VERIF_REPLAY_DIR=scratch + "/rp",
                       VERIF_SEED=os.environ.get("BENIGN_SEED", "5"))
            t0 = time.time()
            p = subprocess.run(["/verif/check", c, "quick"], env=env, capture_output=True, text=True, timeout=3600)
            bad = [l for l in p.stdout.split("\n") if l.startswith("violation ") or l.startswith("HARNESS-ERROR")]
            out[c] = {"exit": p.returncode, "wall_s": round(time.time() - t0, 1), "first": bad[0][:300] if bad else ""}
    finally:
        shutil.rmtree(scratch, ignore_errors=True)
    return bid, out


def main():
    ids = sys.argv[1:] or sorted(d for d in os.listdir(ROOT) if os.path.isdir(os.path.join(ROOT, d)))
    results = {}
    with concurrent.futures.ThreadPoolExecutor(max_workers=int(os.environ.get("PAR", "2"))) as ex:
        for bid, out in ex.map(one, ids):
            results[bid] = out
            print(bid, json.dumps(out)[:500], flush=True)
    path = os.path.join(ROOT, "RESULTS.json")
    old = json.load(open(path)) if os.path.exists(path) else {}
    old.update(results)
    json.dump(old, open(path, "w"), indent=1, sort_keys=True)
    alarms = [b for b, o in results.items() if "error" in o or any(v.get("exit") != 0 for v in o.values())]
    print(f"{len(results)} behaviour-preserving changes, {len(alarms)} raised an alarm: {alarms}")
    return 1 if alarms else 0


if __name__ == "__main__":
    sys.exit(main())
