#!/bin/sh
# usage: confirm_all.sh <PROP> <outdir-name> [extra check props]  - sequentially confirms <outdir>/change_* of /tmp/wt/<PROP>
P=$1; O=$2; shift; shift
for d in /tmp/wt/$P/$O/change_*; do
  /verif/tools/confirm_seeded.py $P /tmp/wt/$P $d $P "$@" > $d/confirm.json 2>$d/confirm.err
done
echo done > /tmp/wt/$P/$O/confirm_done
