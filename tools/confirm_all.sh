#!/bin/sh
# usage: confirm_all.sh <PROP> [extra check props]   - sequentially confirms out/change_* of /tmp/wt/<PROP>
P=$1; shift
for d in /tmp/wt/$P/out/change_*; do
  /verif/tools/confirm_seeded.py $P /tmp/wt/$P $d $P "$@" > $d/confirm.json 2>$d/confirm.err
done
echo done > /tmp/wt/$P/out/confirm_done
