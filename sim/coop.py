"""Engine C: cooperative clients of one object + I/O faults at the `open` seam.

The parties are logical clients (iterators in progress, random readers, an editor, a saver),
each a Python generator that performs one public operation per step; the seeded scheduler
draws which client steps next.  The disk is behind `open`: FaultyFileIO under the normal
BufferedReader/BufferedWriter/TextIOWrapper stack injects short reads, short/torn writes and
errors at raw-call numbers chosen by the plan.
"""
import errno
import hashlib
import io


class FaultPlan:
    """Decides, per raw call on a watched file, what happens.  Deterministic: a function of the
    call counter only."""

    def __init__(self):
        self.read_short = set()     # raw read numbers that return fewer bytes than asked
        self.read_short_all = False
        self.read_error = set()     # raw read numbers that raise EIO (before consuming anything)
        self.write_short = set()
        self.write_short_all = False
        self.write_error = {}       # raw write number -> errno
        self.write_torn = {}        # raw write number -> errno (half written, then the error)
        self.open_error = {}        # open-for-write number -> errno
        self.reads = 0
        self.writes = 0
        self.opens_w = 0
        self.fired = {}
        self.active = True

    def hit(self, name):
        self.fired[name] = self.fired.get(name, 0) + 1


class FaultyFileIO(io.FileIO):
    def __init__(self, path, mode, plan: FaultPlan, closefd=True):
        super().__init__(path, mode, closefd=closefd)
        self._plan = plan

    def readinto(self, b):
        p = self._plan
        if not p.active:
            return super().readinto(b)
        p.reads += 1
        n = p.reads
        if n in p.read_error:
            p.hit("read-EIO")
            raise OSError(errno.EIO, "injected read error")
        if (p.read_short_all or n in p.read_short) and len(b) > 1:
            k = max(1, len(b) // 7) if p.read_short_all else max(1, len(b) // 3)
            if p.read_short_all:
                k = min(k, 13)
            p.hit("short-read")
            mv = memoryview(b)[:k]
            return super().readinto(mv)
        return super().readinto(b)

    def readall(self):
        # BufferedReader.read() (no size) would call this; route through readinto so faults apply
        chunks = []
        while True:
            buf = bytearray(8192)
            n = self.readinto(buf)
            if not n:
                break
            chunks.append(bytes(buf[:n]))
        return b"".join(chunks)

    def write(self, b):
        p = self._plan
        if not p.active:
            return super().write(b)
        p.writes += 1
        n = p.writes
        if n in p.write_error:
            p.hit("write-error")
            raise OSError(p.write_error[n], "injected write error")
        if n in p.write_torn and len(b) > 1:
            p.hit("torn-write")
            super().write(bytes(b[:len(b) // 2]))
            raise OSError(p.write_torn[n], "injected write error after a partial write")
        if (p.write_short_all or n in p.write_short) and len(b) > 1:
            p.hit("short-write")
            return super().write(bytes(b[:max(1, len(b) // 2)]))
        return super().write(b)


def make_open(plan: FaultPlan, watched):
    """An `open` replacement for a module under test.  Files for which watched(path, mode) is true
    get the faulty raw layer; everything else is the builtin open."""
    real_open = open

    def sim_open(file, mode="r", buffering=-1, encoding=None, errors=None, newline=None, closefd=True,
                 opener=None):
        if not isinstance(file, str) or not watched(file, mode):
            return real_open(file, mode, buffering, encoding, errors, newline, closefd, opener)
        binary = "b" in mode
        rawmode = mode.replace("b", "").replace("t", "")
        writing = any(c in rawmode for c in "wax+")
        if writing:
            plan.opens_w += 1
            if plan.active and plan.opens_w in plan.open_error:
                plan.hit("open-error")
                raise OSError(plan.open_error[plan.opens_w], "injected open error", file)
        raw = FaultyFileIO(file, rawmode, plan)
        if buffering == 0:
            if not binary:
                raw.close()
                raise ValueError("can't have unbuffered text I/O")
            return raw
        try:
            if "+" in rawmode:
                buf = io.BufferedRandom(raw)
            elif writing:
                buf = io.BufferedWriter(raw)
            else:
                buf = io.BufferedReader(raw)
            if binary:
                return buf
            text = io.TextIOWrapper(buf, encoding, errors, newline, False)
            text.mode = mode
            return text
        except BaseException:
            raw.close()
            raise

    return sim_open


class StepCap(BaseException):
    """The run was cut off by the harness: inconclusive, never a verdict."""


class CoopScheduler:
    """Steps generator-based clients in an order drawn from the choice source."""

    def __init__(self, choice, stickiness=0.0):
        self.choice = choice
        self.rng = choice.sched_rng()
        self.stickiness = stickiness
        self.clients = []       # [name, generator]
        self.step = 0
        self.switches = 0
        self._log = hashlib.sha256()
        self._sig = hashlib.sha256()
        self.trace = None
        self.max_live = 0
        self.last = None

    def add(self, name, gen):
        self.clients.append([name, gen])

    def note(self, text):
        self._log.update(("n|" + text + "\n").encode())
        if self.trace is not None:
            self.trace.append(f"{self.step} note {text}")

    def run(self, max_steps=200000):
        while self.clients:
            self.max_live = max(self.max_live, len(self.clients))
            # canonical order: the client that ran last first, then the others in creation order
            opts = list(self.clients)
            if self.last is not None and self.last in opts:
                opts.remove(self.last)
                opts.insert(0, self.last)
            if len(opts) == 1:
                idx = 0
            else:
                def pick():
                    if opts[0] is self.last and self.rng.random() < self.stickiness:
                        return 0
                    return self.rng.randrange(len(opts))
                idx = self.choice.decide(len(opts), pick)
            c = opts[idx]
            if c is not self.last:
                self.switches += 1
            self.last = c
            self.step += 1
            if self.step > max_steps:
                raise StepCap()
            try:
                label = next(c[1])
            except StopIteration:
                self.clients.remove(c)
                label = "end"
            self._log.update(f"{self.step}|{c[0]}|{label}\n".encode())
            self._sig.update(f"{c[0]}|{label}\n".encode())
            if self.trace is not None:
                self.trace.append(f"{self.step} {c[0]} {label}")

    def digest(self):
        return self._log.hexdigest()

    def signature(self):
        return self._sig.hexdigest()[:16]
