"""Run isolation, batches, shrinking, replay files, evidence.  Shared by all engines.

A *spec* (one per property, see props/) provides

    spec.PROPERTY            'C02'
    spec.ENGINE              free text for the evidence file
    spec.runs(tier)          number of runs of a tier
    spec.run(tier, run_seed, replay, trace, emit)
                             executes ONE run inside the forked child and calls
                             emit(result_dict); never returns normally
    spec.REAL / spec.STUBBED lists for the evidence file

A result dict has: verdict ('ok' | 'violation' | 'skip' | 'inconclusive'), violations (list
of {class, site, message}), digest, signature, steps, switches, preemptions, max_live,
probes, faults, plan (decoded, human readable), streams (plan/sched), and optionally trace.
"""
import concurrent.futures
import hashlib
import json
import multiprocessing
import os
import select
import signal
import sys
import time

from .choice import derive_seed

VERIF_DIR = os.path.dirname(os.path.dirname(os.path.abspath(__file__)))
REPO_ROOT = os.environ.get("VERIF_REPO", "/repo")
RUN_WALL_LIMIT = float(os.environ.get("VERIF_RUN_WALL", "30"))


# ----------------------------------------------------------------------------------------
# one run in a forked child

def run_in_child(spec, tier, run_seed, replay=None, trace=False):
    """One run in a forked child. A run cut off by the wall watchdog is repeated once with four times the
    limit (one seed is one execution, so the repetition is the same run): a loaded machine must not turn a
    slow run into a harness error, while a run that really hangs still is one."""
    t0 = time.monotonic()
    res = _run_in_child(spec, tier, run_seed, replay, trace, RUN_WALL_LIMIT)
    if res.get("timed_out"):
        res = _run_in_child(spec, tier, run_seed, replay, trace, 4 * RUN_WALL_LIMIT)
        res["wall_retry"] = 1
    res["run_wall"] = time.monotonic() - t0
    return res


def _run_in_child(spec, tier, run_seed, replay, trace, wall_limit):
    rfd, wfd = os.pipe()
    pid = os.fork()
    if pid == 0:
        code = 3
        try:
            os.close(rfd)
            import faulthandler
            faulthandler.enable()

            def emit(result):
                data = json.dumps(result, default=repr).encode()
                pos = 0
                while pos < len(data):
                    pos += os.write(wfd, data[pos:pos + 65536])
                os._exit(0)

            spec.run(tier, run_seed, replay, trace, emit)
        except BaseException:  # noqa
            import traceback
            try:
                err = {"verdict": "harness-error", "message": traceback.format_exc()}
                os.write(wfd, json.dumps(err).encode())
            except BaseException:  # noqa
                pass
        finally:
            os._exit(code)
    os.close(wfd)
    chunks = []
    deadline = time.monotonic() + wall_limit
    timed_out = False
    while True:
        left = deadline - time.monotonic()
        if left <= 0:
            timed_out = True
            break
        r, _, _ = select.select([rfd], [], [], left)
        if not r:
            timed_out = True
            break
        b = os.read(rfd, 1 << 16)
        if not b:
            break
        chunks.append(b)
    os.close(rfd)
    if timed_out:
        try:
            os.kill(pid, signal.SIGKILL)
        except ProcessLookupError:
            pass
    os.waitpid(pid, 0)
    if timed_out:
        return {"verdict": "harness-error", "message": f"run exceeded {wall_limit}s wall clock",
                "seed": run_seed, "timed_out": True}
    raw = b"".join(chunks)
    if not raw:
        return {"verdict": "harness-error", "message": "child produced no result", "seed": run_seed}
    try:
        res = json.loads(raw)
    except ValueError:
        return {"verdict": "harness-error", "message": "unparsable child result: " + raw[:300].decode("replace"),
                "seed": run_seed}
    res["seed"] = run_seed
    return res


# ----------------------------------------------------------------------------------------
# batches

_SPEC = None


def _batch(args):
    tier, seeds, recheck = args
    spec = _SPEC
    agg = new_agg()
    for s in seeds:
        res = run_in_child(spec, tier, s)
        if s in recheck and res.get("verdict") != "harness-error":
            res2 = run_in_child(spec, tier, s)
            agg["rechecked"] += 1
            if res2.get("digest") != res.get("digest") or res2.get("verdict") != res.get("verdict"):
                agg["nondeterministic"].append(s)
        fold(agg, res)
    return agg


def new_agg():
    return {"runs": 0, "ok": 0, "skip": 0, "inconclusive": 0, "violation_runs": 0, "harness_errors": [],
            "violations": [], "steps": 0, "switches": 0, "preemptions": 0, "sync_events": 0,
            "probes": {}, "faults": {}, "signatures": set(), "nontrivial_runs": 0, "samples": [],
            "rechecked": 0, "nondeterministic": [], "skips": {}, "strategies": {}, "stalls_seen": 0,
            "max_live": 0, "digest_xor": 0, "abstract_states": set(), "max_run_wall": 0.0, "wall_retries": 0}


def fold(agg, res):
    agg["runs"] += 1
    agg["max_run_wall"] = max(agg["max_run_wall"], res.get("run_wall", 0.0))
    agg["wall_retries"] += res.get("wall_retry", 0)
    v = res.get("verdict")
    if v == "harness-error":
        if len(agg["harness_errors"]) < 5:
            agg["harness_errors"].append({"seed": res.get("seed"), "message": res.get("message", "")[-1500:]})
        else:
            agg["harness_errors"].append({"seed": res.get("seed")})
        return
    if v == "ok":
        agg["ok"] += 1
    elif v == "skip":
        agg["skip"] += 1
        r = res.get("skip_reason", "?")
        agg["skips"][r] = agg["skips"].get(r, 0) + 1
    elif v == "inconclusive":
        agg["inconclusive"] += 1
    elif v == "violation":
        agg["violation_runs"] += 1
        if len(agg["violations"]) < 40:
            agg["violations"].append({"seed": res["seed"], "violations": res["violations"],
                                      "streams": res.get("streams"), "plan": res.get("plan")})
    agg["steps"] += res.get("steps", 0)
    agg["switches"] += res.get("switches", 0)
    agg["preemptions"] += res.get("preemptions", 0)
    agg["sync_events"] += res.get("sync_events", 0)
    agg["max_live"] = max(agg["max_live"], res.get("max_live", 0))
    if res.get("stalled"):
        agg["stalls_seen"] += 1
    for k, n in res.get("probes", {}).items():
        agg["probes"][k] = agg["probes"].get(k, 0) + n
    for k, n in res.get("faults", {}).items():
        agg["faults"][k] = agg["faults"].get(k, 0) + n
    st = res.get("strategy")
    if st:
        agg["strategies"][st] = agg["strategies"].get(st, 0) + 1
    if res.get("nontrivial"):
        agg["nontrivial_runs"] += 1
        agg["signatures"].add(res.get("signature"))
    d = res.get("digest")
    if d:
        agg["digest_xor"] ^= int(d[:16], 16)
    ab = res.get("abstract_states")
    if ab:
        agg["abstract_states"].update(ab)
    if len(agg["samples"]) < 2 and res.get("nontrivial"):
        agg["samples"].append({"seed": res["seed"], "plan": res.get("plan"), "verdict": v,
                               "steps": res.get("steps"), "preemptions": res.get("preemptions"),
                               "signature": res.get("signature")})


def merge(a, b):
    for k in ("runs", "ok", "skip", "inconclusive", "violation_runs", "steps", "switches", "preemptions",
              "sync_events", "nontrivial_runs", "rechecked", "stalls_seen"):
        a[k] += b[k]
    a["max_live"] = max(a["max_live"], b["max_live"])
    a["max_run_wall"] = max(a["max_run_wall"], b["max_run_wall"])
    a["wall_retries"] += b["wall_retries"]
    a["digest_xor"] ^= b["digest_xor"]
    a["harness_errors"].extend(b["harness_errors"])
    a["nondeterministic"].extend(b["nondeterministic"])
    for k in ("probes", "faults", "skips", "strategies"):
        for kk, n in b[k].items():
            a[k][kk] = a[k].get(kk, 0) + n
    a["signatures"] |= b["signatures"]
    a["abstract_states"] |= b["abstract_states"]
    if len(a["violations"]) < 200:
        a["violations"].extend(b["violations"])
    if len(a["samples"]) < 4:
        a["samples"].extend(b["samples"][: 4 - len(a["samples"])])


# ----------------------------------------------------------------------------------------
# known findings

def load_known(prop):
    path = os.path.join(VERIF_DIR, "known_findings.jsonl")
    out = []
    if os.path.exists(path):
        for line in open(path):
            line = line.strip()
            if not line or line.startswith("#") or line.startswith("fixed:"):
                continue
            try:
                e = json.loads(line)
            except ValueError:
                continue
            if e.get("property") == prop and e.get("status", "open") == "open":
                out.append(e)
    return out


def match_known(known, viol):
    for e in known:
        if e.get("class") == viol["class"] and e.get("site_key") == viol["site"]:
            return e
    return None


# ----------------------------------------------------------------------------------------
# shrinking

def _same(res, target):
    if res.get("verdict") != "violation":
        return False
    return any(v["class"] == target["class"] and v["site"] == target["site"] for v in res["violations"])


def shrink(spec, tier, seed, streams, target, budget_runs=300, budget_s=45.0):
    """Minimise the two choice streams while the same (class, site) recurs."""
    t0 = time.monotonic()
    runs = [0]
    best = {"plan": list(streams["plan"]), "sched": dict(streams["sched"])}

    def attempt(cand):
        if runs[0] >= budget_runs or time.monotonic() - t0 > budget_s:
            return None
        runs[0] += 1
        res = run_in_child(spec, tier, seed, replay=cand)
        if _same(res, target):
            # adopt what the run actually consumed (canonical form)
            return res.get("streams") or cand
        return None

    # 1. schedule: drop all pre-emptions, then halves, then single entries
    def sched_pass(best):
        keys = sorted(best["sched"], key=int)
        if not keys:
            return best
        cand = {"plan": best["plan"], "sched": {}}
        r = attempt(cand)
        if r:
            return r
        n = len(keys)
        chunk = max(1, n // 2)
        while chunk >= 1:
            i = 0
            keys = sorted(best["sched"], key=int)
            while i < len(keys):
                drop = set(keys[i:i + chunk])
                cand = {"plan": best["plan"], "sched": {k: v for k, v in best["sched"].items() if k not in drop}}
                r = attempt(cand)
                if r:
                    best = r
                    keys = sorted(best["sched"], key=int)
                else:
                    i += chunk
                if runs[0] >= budget_runs:
                    return best
            if chunk == 1:
                break
            chunk //= 2
        return best

    # 2. plan: zero blocks, then lower single values
    def plan_pass(best):
        plan = list(best["plan"])
        n = len(plan)
        chunk = max(1, n // 2)
        while chunk >= 1:
            i = 0
            while i < n:
                if any(plan[i:i + chunk]):
                    cand_plan = plan[:i] + [0] * len(plan[i:i + chunk]) + plan[i + chunk:]
                    r = attempt({"plan": cand_plan, "sched": best["sched"]})
                    if r:
                        best = r
                        plan = list(best["plan"])
                        n = len(plan)
                i += chunk
                if runs[0] >= budget_runs:
                    return best
            if chunk == 1:
                break
            chunk //= 2
        for i in range(len(plan)):
            while i < len(plan) and plan[i] > 0:
                cand_plan = list(plan)
                cand_plan[i] = plan[i] - 1 if plan[i] < 3 else plan[i] // 2
                r = attempt({"plan": cand_plan, "sched": best["sched"]})
                if r:
                    best = r
                    plan = list(best["plan"])
                else:
                    break
        return best

    best = plan_pass(best)
    best = sched_pass(best)
    best = plan_pass(best)
    best = sched_pass(best)
    return best, runs[0]


def code_digest(files):
    h = hashlib.sha256()
    for f in files:
        p = os.path.join(REPO_ROOT, f)
        try:
            h.update(open(p, "rb").read())
        except OSError:
            h.update(b"missing")
    return h.hexdigest()[:16]


def write_replay(spec, tier, seed, streams, target):
    """Re-run with tracing, write the replay file, return its path (None if the replay
    does not reproduce)."""
    res = run_in_child(spec, tier, seed, replay=streams, trace=True)
    if not _same(res, target):
        return None, res
    rdir = os.environ.get("VERIF_REPLAY_DIR") or os.path.join(VERIF_DIR, "replays")
    os.makedirs(rdir, exist_ok=True)
    path = os.path.join(rdir, f"{spec.PROPERTY}-{seed}.json")
    # describe the violation as the minimised run shows it (same class and site key as the original report)
    shown = next((v for v in res["violations"] if v["class"] == target["class"] and v["site"] == target["site"]), target)
    doc = {"property": spec.PROPERTY, "tier": tier, "run_seed": seed,
           "code_digest": code_digest(getattr(spec, "FILES", [])),
           "violation": shown, "first_seen_as": target.get("message"), "all_violations": res["violations"], "plan": res.get("plan"),
           "streams": res.get("streams"), "digest": res.get("digest"),
           "trace": res.get("trace")}
    with open(path, "w") as f:
        json.dump(doc, f, indent=1, default=repr)
    return path, res


def replay_file(spec, path):
    if hasattr(spec, "prepare"):
        spec.prepare()
    doc = json.load(open(path))
    res = run_in_child(spec, doc["tier"], doc["run_seed"], replay=doc["streams"], trace=True)
    target = doc["violation"]
    if _same(res, target) and res.get("digest") == doc.get("digest"):
        print(f"replay reproduces: class={target['class']} site={target['site']}")
        print(f"  message: {target.get('message')}")
        print(f"VIOLATION property={spec.PROPERTY} replay={path}")
        return 1
    if _same(res, target):
        print("HARNESS-ERROR replay reproduces the violation but the event-log digest differs "
              "(code changed since the file was written?)")
        print(f"VIOLATION property={spec.PROPERTY} replay={path}")
        return 1
    print(f"HARNESS-ERROR replay diverged: verdict={res.get('verdict')} violations={res.get('violations')}")
    return 2


# ----------------------------------------------------------------------------------------
# the check driver

def run_check(spec, tier, base_seed, jobs=None, wall_budget=None, max_runs=None):
    global _SPEC
    _SPEC = spec
    if hasattr(spec, "prepare"):
        spec.prepare()
    t0 = time.monotonic()
    n_runs = max_runs or spec.runs(tier)
    jobs = jobs or int(os.environ.get("VERIF_JOBS", "0")) or min(16, os.cpu_count() or 1)
    wall_budget = wall_budget or float(os.environ.get("VERIF_WALL", "0")) or spec.wall_budget(tier)
    seeds = [derive_seed(base_seed, spec.PROPERTY, tier, i) % (1 << 48) for i in range(n_runs)]
    bsize = max(5, min(100, n_runs // (jobs * 8) or 5))
    batches = []
    for i in range(0, n_runs, bsize):
        ss = seeds[i:i + bsize]
        recheck = {s for j, s in enumerate(ss) if (i + j) % 100 == 0}
        batches.append((tier, ss, recheck))
    total = new_agg()
    stopped_early = False
    ctx = multiprocessing.get_context("fork")
    known = load_known(spec.PROPERTY)
    unknown_found = False
    with concurrent.futures.ProcessPoolExecutor(max_workers=jobs, mp_context=ctx) as ex:
        pending = set()
        it = iter(batches)

        def submit_more():
            while len(pending) < jobs * 2:
                try:
                    b = next(it)
                except StopIteration:
                    return False
                pending.add(ex.submit(_batch, b))
            return True

        submit_more()
        while pending:
            done, _ = concurrent.futures.wait(pending, return_when=concurrent.futures.FIRST_COMPLETED)
            for f in done:
                pending.discard(f)
                merge(total, f.result())
            for v in total["violations"]:
                if any(match_known(known, x) is None for x in v["violations"]):
                    unknown_found = True
            if (unknown_found and not os.environ.get("VERIF_KEEP_GOING")) or total["nondeterministic"] or len(total["harness_errors"]) > 20:
                stopped_early = True
                for p in pending:
                    p.cancel()
                break
            if time.monotonic() - t0 > wall_budget:
                stopped_early = True
                for p in pending:
                    p.cancel()
                # let running ones finish
                for p in list(pending):
                    if not p.cancelled():
                        try:
                            merge(total, p.result())
                        except concurrent.futures.CancelledError:
                            pass
                break
            submit_more()
    return finish_check(spec, tier, base_seed, total, known, t0, stopped_early, n_runs)


def finish_check(spec, tier, base_seed, total, known, t0, stopped_early, planned):
    prop = spec.PROPERTY
    exit_code = 0
    lines = []
    # group violations by (class, site)
    groups = {}
    for v in total["violations"]:
        for x in v["violations"]:
            key = (x["class"], x["site"])
            groups.setdefault(key, []).append((v, x))
    reported = []
    shrunk_groups = 0
    for key, items in sorted(groups.items()):
        v, x = min(items, key=lambda it: len(it[0]["streams"]["plan"]) + len(it[0]["streams"]["sched"]))
        k = match_known(known, x)
        if k is not None:
            lines.append(f"KNOWN-FINDING: property={prop} class={x['class']} site={x['site']} "
                         f"({len(items)} runs) {k.get('description', '')}")
            reported.append({"class": x["class"], "site": x["site"], "runs": len(items), "known": True})
            continue
        if shrunk_groups < 3:
            best, used = shrink(spec, tier, v["seed"], v["streams"], x, budget_s=30.0)
            shrunk_groups += 1
        else:
            # many different violation classes at once: the first three are minimised, the others are
            # reported with the schedule as found (still an exact replay)
            best, used = v["streams"], 0
        path, res = write_replay(spec, tier, v["seed"], best, x)
        if path is None:
            # shrunk form did not replay; fall back to the original streams
            path, res = write_replay(spec, tier, v["seed"], v["streams"], x)
        if path is None:
            lines.append(f"HARNESS-ERROR property={prop} violation class={x['class']} site={x['site']} "
                         f"seed={v['seed']} did not reproduce on replay")
            exit_code = max(exit_code, 2)
            continue
        rel = os.path.relpath(path, VERIF_DIR) if path.startswith(VERIF_DIR + os.sep) else path
        lines.append(f"violation class={x['class']} site={x['site']} runs={len(items)} seed={v['seed']} "
                     f"shrink_runs={used}: " + " ".join(str(x.get('message', '')).split())[:400])
        lines.append(f"VIOLATION property={prop} replay={rel}")
        reported.append({"class": x["class"], "site": x["site"], "runs": len(items), "known": False,
                         "replay": rel})
        exit_code = 1
    if total["nondeterministic"]:
        lines.append(f"HARNESS-ERROR property={prop} nondeterministic digests for seeds "
                     f"{total['nondeterministic'][:5]}")
        exit_code = 2 if exit_code == 0 else exit_code
    if total["harness_errors"]:
        lines.append(f"HARNESS-ERROR property={prop} {len(total['harness_errors'])} runs failed in the harness; "
                     f"first: {json.dumps(total['harness_errors'][0])[:1500]}")
        exit_code = 2 if exit_code == 0 else exit_code
    if total["inconclusive"]:
        lines.append(f"HARNESS-ERROR property={prop} {total['inconclusive']} runs hit the step cap (inconclusive)")
        exit_code = 2 if exit_code == 0 else exit_code
    wall = time.monotonic() - t0
    evaluated = total["ok"] + total["violation_runs"]
    if exit_code == 0 and evaluated == 0:
        lines.append(f"HARNESS-ERROR property={prop} no run was evaluated")
        exit_code = 2
    write_evidence(spec, tier, base_seed, total, wall, reported, stopped_early, planned)
    zero = [p for p in getattr(spec, "PROBES", []) if total["probes"].get(p, 0) == 0]
    print(f"{prop} {tier}: runs={total['runs']} evaluated={evaluated} ok={total['ok']} skip={total['skip']} "
          f"violation_runs={total['violation_runs']} stalls_seen={total['stalls_seen']} "
          f"steps={total['steps']} distinct_signatures={len(total['signatures'])} "
          f"rechecked={total['rechecked']} wall={wall:.1f}s")
    if zero:
        print(f"  warning: probes at zero: {', '.join(zero)}")
    for l in lines:
        print(l)
    return exit_code


def write_evidence(spec, tier, base_seed, total, wall, reported, stopped_early, planned):
    edir = os.environ.get("VERIF_EVIDENCE_DIR") or os.path.join(VERIF_DIR, "evidence")
    os.makedirs(edir, exist_ok=True)
    path = os.path.join(edir, f"{spec.PROPERTY}.json")
    runs = total["runs"]
    per_hour = runs / wall * 3600 if wall > 0 else 0
    ev = {
        "property_id": spec.PROPERTY,
        "tier": tier,
        "seed": base_seed,
        "level": "exploration",
        "coverage": {
            "evaluations": runs,
            "distinct_nontrivial": len(total["signatures"]),
            "rule": spec.RULE,
            "samples": total["samples"][:3],
            "runs_planned": planned,
            "stopped_early": stopped_early,
            "runs_evaluated": total["ok"] + total["violation_runs"],
            "runs_ok": total["ok"],
            "runs_not_evaluated": total["skip"],
            "not_evaluated_reasons": total["skips"],
            "runs_inconclusive": total["inconclusive"],
            "runs_with_stall": total["stalls_seen"],
            "runs_per_hour": int(per_hour),
            "seeds_per_hour": int(per_hour),
            "simulated_time_steps": total["steps"],
            "baton_switches": total["switches"],
            "preemptions": total["preemptions"],
            "sync_events": total["sync_events"],
            "max_concurrently_runnable_tasks": total["max_live"],
            "slowest_run_wall_s": round(total["max_run_wall"], 2),
            "runs_repeated_after_wall_watchdog": total["wall_retries"],
            "distinct_abstract_states": len(total["abstract_states"]),
            "abstract_state_rule": "CRC32 of (operation kind, per live task (role, what it waits on), queue lengths capped at 3, "
                                   "lock / event flags) taken at every synchronisation event; engine A only (0 for engines B and C)",
            "fault_kinds_fired": total["faults"],
            "probes": total["probes"],
            "probes_at_zero": [p for p in getattr(spec, "PROBES", []) if total["probes"].get(p, 0) == 0],
            "scheduler_strategies": total["strategies"],
            "determinism_rechecks": total["rechecked"],
            "determinism_mismatches": len(total["nondeterministic"]),
            "batch_digest_xor": f"{total['digest_xor']:016x}",
            "engine": spec.ENGINE,
            "real_code": spec.REAL,
            "stubbed": spec.STUBBED,
            "reported": reported,
        },
        "assumptions": spec.ASSUMPTIONS,
        "wall_s": round(wall, 2),
        "violations": sum(1 for r in reported if not r.get("known")),
    }
    with open(path, "w") as f:
        json.dump(ev, f, indent=1, default=repr)
