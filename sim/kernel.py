"""Engine A: in-process deterministic kernel.

Every party of a run (the caller, every threading.Thread the code under test starts,
every simulated process) is a real OS thread that runs only while it holds the *baton*.
Exactly one task holds it.  A task reaching a yield point calls ``switch`` (it stays
runnable) or ``block`` (it parks with a predicate); the kernel draws the next task from
the runnable set and hands the baton over.  Runnable set empty while the main task has
not returned  =>  *stall*.  All decisions come from sim.choice.Choice.
"""
import _thread
import hashlib
import linecache
import os
import sys
import threading
import traceback
import zlib


class RunEnd(BaseException):
    """Raised only when the kernel is used without an on_end that exits (unit tests)."""

    def __init__(self, kind, info):
        super().__init__(kind)
        self.kind = kind
        self.info = info


class Task:
    __slots__ = ("id", "role", "name", "proc", "lock", "done", "pred", "waiting", "ident", "error",
                 "prio", "started", "on_done", "kind", "deferred", "timed", "killed", "proc_obj", "slow_pending")

    def __init__(self, tid, role, name, proc, kind):
        self.id = tid
        self.role = role
        self.name = name
        self.proc = proc
        self.kind = kind            # 'main' | 'thread' | 'process'
        self.lock = _thread.allocate_lock()
        self.lock.acquire()
        self.done = False
        self.pred = None
        self.waiting = None         # (primitive role, op) while blocked
        self.ident = None
        self.error = None
        self.prio = 0
        self.started = False
        self.on_done = None
        self.deferred = False
        self.timed = False
        self.killed = False
        self.slow_pending = False    # the operation it is about to perform is a slow spot of this run (see Kernel.switch)
        self.proc_obj = None         # the process object whose run() this task executes (simulated processes)

    def __repr__(self):
        return f"<Task {self.id} {self.name}>"


class InternalEvent:
    """A kernel-side event source (e.g. the feeder of a pipe queue) that the scheduler picks
    like a task."""
    id = 0
    name = "internal"
    prio = 0

    def enabled(self) -> bool:
        return False

    def fire(self):
        pass


# ----------------------------------------------------------------------------------------
# scheduling strategies (consulted in record mode only)

class Strategy:
    name = "uniform"

    slow = None

    def __init__(self, rng, params=None):
        self.rng = rng
        self.params = params or {}

    def describe(self):
        return {"name": self.name, **self.params}

    def new_task(self, task):
        pass

    def pick(self, opts, me_first, kernel, label, anchored):
        return self.rng.randrange(len(opts))


class Sticky(Strategy):
    name = "sticky"

    def pick(self, opts, me_first, kernel, label, anchored):
        if me_first and self.rng.random() < self.params["p"]:
            return 0
        return self.rng.randrange(len(opts))


class PCT(Strategy):
    """Random priorities, d priority-change points over the expected step count."""
    name = "pct"

    def __init__(self, rng, params):
        super().__init__(rng, params)
        d = params["d"]
        est = params["est"]
        self.change_points = sorted(rng.randrange(1, est) for _ in range(d))
        self.low = 0

    def _prio_of(self, o):
        if not hasattr(o, "prio") or o.prio == 0:
            try:
                o.prio = self.rng.random() + 1.0
            except AttributeError:
                return self.rng.random() + 1.0
        return o.prio

    def pick(self, opts, me_first, kernel, label, anchored):
        while self.change_points and kernel.step >= self.change_points[0]:
            self.change_points.pop(0)
            if me_first:
                self.low -= 1
                opts[0].prio = float(self.low) if self.low < 0 else -1.0
        best, besti = None, 0
        for i, o in enumerate(opts):
            p = self._prio_of(o)
            if best is None or p > best:
                best, besti = p, i
        return besti


class RunToBlock(Strategy):
    """Keep the current task until it blocks; k forced pre-emptions, placed either at
    drawn step numbers or at drawn occurrences of anchored lines."""
    name = "rtb"

    def __init__(self, rng, params):
        super().__init__(rng, params)
        k = params["k"]
        est = params["est"]
        self.at_anchor = params.get("at_anchor", False)
        if self.at_anchor:
            self.points = sorted(rng.randrange(1, max(2, est // 8)) for _ in range(k))
        else:
            self.points = sorted(rng.randrange(1, est) for _ in range(k))
        self.anchor_seen = 0

    def pick(self, opts, me_first, kernel, label, anchored):
        if not me_first:
            return self.rng.randrange(len(opts))
        if self.at_anchor:
            if anchored:
                self.anchor_seen += 1
                if self.points and self.anchor_seen >= self.points[0]:
                    self.points.pop(0)
                    return self.rng.randrange(1, len(opts))
            return 0
        if self.points and kernel.step >= self.points[0]:
            self.points.pop(0)
            return self.rng.randrange(1, len(opts))
        return 0


def make_strategy(choice, est_steps=400):
    """Swarm choice of a strategy; the parameters are plan draws (recorded), the decisions
    come from the sched rng."""
    st = _make_strategy(choice, est_steps)
    # fault "slow spot" (a slow or stalled party): a pseudo-random subset of the (task role | task name, operation)
    # pairs of this run is slow - a task that performs such an operation is from then on (or, mode 'before', right
    # before it) as slow as it can legally be: it continues only when nobody else can make a step. Unlike a
    # priority change at a random step this lands at synchronisation points, and on every task of a role at once
    # (all workers dawdle after they have delivered a result, ...). Off in half of the runs.
    kind = choice.draw(6, "slow.spots")
    if kind >= 3:
        st.slow = {"mod": [6, 12, 24][kind - 3], "res": choice.draw(24, "slow.residue"),
                   "before": choice.draw(3, "slow.before") == 2, "by_name": choice.draw(3, "slow.by_name") == 2}
        st.params = dict(st.params, slow=st.slow)
    return st


def _make_strategy(choice, est_steps=400):
    rng = choice.sched_rng()
    kind = choice.draw(10, "strategy")
    est = [60, 150, 400, 1000, 3000][choice.draw(5, "strategy.est")]
    est = max(20, int(est * est_steps / 400))
    if kind in (0, 1):
        return Strategy(rng, {})
    if kind in (2, 3, 4):
        p = [0.5, 0.9, 0.99][kind - 2]
        return Sticky(rng, {"p": p})
    if kind in (5, 6):
        d = 1 + choice.draw(3, "pct.d")
        return PCT(rng, {"d": d, "est": est})
    if kind in (7, 8):
        k = 1 + choice.draw(3, "rtb.k")
        return RunToBlock(rng, {"k": k, "est": est, "at_anchor": True})
    k = 1 + choice.draw(3, "rtb.k")
    return RunToBlock(rng, {"k": k, "est": est})


# ----------------------------------------------------------------------------------------

class Kernel:
    def __init__(self, choice, strategy, on_end, trace_root=None, granularity="line",
                 max_steps=200_000, anchors=None):
        self.choice = choice
        self.strategy = strategy
        self._slow_events = {}
        self.on_end = on_end
        self.trace_root = trace_root
        self.granularity = granularity
        self.max_steps = max_steps
        self.anchors = anchors or {}     # (filename, lineno) -> anchor name
        self.tasks = []
        self.internal = []
        self.current = None
        self.step = 0
        self.switches = 0                # steps at which the baton changed hands
        self.preemptions = 0             # ... although the previous holder could have run
        self.max_live = 0
        self._log = hashlib.sha256()
        self._sig = hashlib.sha256()     # sync-order signature: (role, op) pairs only
        self.sync_events = 0
        self.probes = {}
        self.faults = {}
        self.anchor_log = []             # (step, task name, anchor)
        self.trace_events = None         # list of readable events when tracing for a replay file
        self._code_cache = {}
        self._next_proc = 1
        self.ended = False
        self.state_probes = []           # callables returning small tuples describing primitive state
        self.abstract_states = set()
        self._fallback = False
        self.early_timeouts_left = 0     # set by a workload: how many timeouts may fire although somebody else can run
        self._rng = choice.sched_rng()
        self._idle_set = set()           # tasks whose timeout fired since the last step of any other task
        self._idle_fires = 0
        self.task_errors = []            # (task name, repr(exc), traceback text)
        self._name_counts = {}

    # ------------------------------------------------------------------ bookkeeping
    def probe(self, name, n=1):
        self.probes[name] = self.probes.get(name, 0) + n

    def fault(self, name, n=1):
        self.faults[name] = self.faults.get(name, 0) + n

    def new_proc_id(self):
        p = self._next_proc
        self._next_proc += 1
        return p

    def _mkname(self, role):
        n = self._name_counts.get(role, 0)
        self._name_counts[role] = n + 1
        return f"{role}#{n}"

    def digest(self):
        return self._log.hexdigest()

    def signature(self):
        return self._sig.hexdigest()[:16]

    def _record(self, task, label, sync):
        self._log.update(f"{self.step}|{task.id}|{label}\n".encode())
        if sync:
            self.sync_events += 1
            self._sig.update(f"{task.role}|{label}\n".encode())
            if self.state_probes:
                st = [label if label.startswith("@") else label.split(".")[-1]]
                for t in self.tasks:
                    if not t.done:
                        st.append((t.role, t.waiting[1] if t.waiting else "r"))
                for pr in self.state_probes:
                    st.append(pr())
                self.abstract_states.add(zlib.crc32(repr(st).encode()))
        if self.trace_events is not None:
            self.trace_events.append((self.step, task.name, label))

    def note(self, label):
        """A deterministic observation folded into the event log (no yield)."""
        self._log.update(f"note|{label}\n".encode())
        if self.trace_events is not None:
            self.trace_events.append((self.step, self.current.name if self.current else "-", "note:" + str(label)))

    # ------------------------------------------------------------------ tracing
    def _tracer(self, frame, event, arg):
        co = frame.f_code
        ok = self._code_cache.get(co)
        if ok is None:
            ok = co.co_filename.startswith(self.trace_root)
            self._code_cache[co] = ok
        if ok and self.granularity == "opcode":
            frame.f_trace_opcodes = True
        return self._local if ok else None

    def _local(self, frame, event, arg):
        if event == "opcode":
            # sub-statement pre-emption (granularity 'opcode'): between any two bytecodes of traced code
            self.switch(f"{os.path.basename(frame.f_code.co_filename)}:{frame.f_lineno}+{frame.f_lasti}")
            return self._local
        if event == "call" and self.granularity == "opcode":
            frame.f_trace_opcodes = True
        if event == "line":
            if self.granularity == "opcode":
                frame.f_trace_opcodes = True
            fn = frame.f_code.co_filename
            ln = frame.f_lineno
            a = self.anchors.get((fn, ln))
            if a is not None:
                self.anchor_log.append((self.step, self.current.name, a))
                self.switch("@" + a, sync=True, anchored=True)
            else:
                self.switch(f"{os.path.basename(fn)}:{ln}")
        return self._local

    def _install_trace(self):
        if self.trace_root and self.granularity != "sync":
            sys.settrace(self._tracer)

    # ------------------------------------------------------------------ scheduling
    def _runnable(self, me):
        opts = []
        deferred = []
        timed = []
        if me is not None and not me.done and (me.pred is None or me.pred()):
            (deferred if me.deferred else opts).append(me)
        elif me is not None and not me.done and me.timed:
            timed.append(me)
        for t in self.tasks:
            if t is me or t.done:
                continue
            if t.pred is None or t.pred():
                (deferred if t.deferred else opts).append(t)
            elif t.timed:
                # a timed wait whose condition does not hold: its timeout fires only when nothing
                # else can run, not even a deferred ("as slow as possible") task - a fair model of
                # "a timeout is long compared with everything else"
                timed.append(t)
        for e in self.internal:
            if e.enabled():
                # a slow spot may also be a delivery path (the feeder of a pipe queue): its items arrive as late as
                # legally possible - when nobody else can make a step
                (deferred if self._slow_event(e) else opts).append(e)
        # a deferred task ("as late as possible") runs only when nothing else can; whether such a task or the
        # timeout of a timed wait comes first is open: both are candidates then, chosen uniformly (not by the
        # strategy, which could keep choosing a polling task for ever)
        self._fallback = False
        if opts:
            if timed and self.early_timeouts_left > 0:
                # a timeout may also expire while others are merely slow: a few times per run (budget drawn by the plan)
                # the waiting tasks join the ordinary candidates
                return opts + timed
            return opts
        if deferred and timed:
            self._fallback = True
        return deferred + timed

    def _slow_event(self, e):
        sl = self.strategy.slow
        if sl is None:
            return False
        r = self._slow_events.get(e.name)
        if r is None:
            key = e.name if sl["by_name"] else e.name.split("[")[0]
            r = zlib.crc32(f"event|{key}".encode()) % sl["mod"] == sl["res"] % sl["mod"]
            self._slow_events[e.name] = r
            if r:
                self.fault("slow-spot-delivery")
        return r

    def _pick(self, me, label="", anchored=False):
        while True:
            opts = self._runnable(me)
            if not opts:
                return None
            live = sum(1 for o in opts if isinstance(o, Task))
            if live > self.max_live:
                self.max_live = live
            if len(opts) == 1:
                c = opts[0]
            else:
                me_first = opts[0] is me
                if self._fallback:
                    idx = self.choice.decide(len(opts), lambda: self._rng.randrange(len(opts)))
                else:
                    idx = self.choice.decide(
                        len(opts), lambda: self.strategy.pick(opts, me_first, self, label, anchored))
                c = opts[idx]
                if me_first and idx != 0:
                    self.preemptions += 1
            if not isinstance(c, InternalEvent) and c.timed and c.pred is not None and len(opts) > 1 \
                    and not self._fallback and not c.pred():
                self.early_timeouts_left -= 1
                self.probe("timeout-fired-early")
            if not isinstance(c, InternalEvent) and c not in self._idle_set and self._idle_fires:
                self._idle_set.clear()
                self._idle_fires = 0
            if isinstance(c, InternalEvent):
                self._idle_set.clear()
                self._idle_fires = 0
                self.step += 1
                self._log.update(f"{self.step}|ev|{c.name}\n".encode())
                self._sig.update(f"ev|{c.name}\n".encode())
                if self.trace_events is not None:
                    self.trace_events.append((self.step, "kernel", c.name))
                c.fire()
                if self.step > self.max_steps:
                    self._end("capped", {})
                continue
            return c

    def _handoff(self, me, nxt):
        if nxt is me:
            return
        self.switches += 1
        self.current = nxt
        nxt.lock.release()
        me.lock.acquire()

    def switch(self, label="", sync=False, anchored=False):
        """Yield point: the caller stays runnable."""
        me = self.current
        self.step += 1
        if self.step > self.max_steps:
            self._end("capped", {})
        self._record(me, label, sync)
        me.pred = None
        slow = False
        sl = self.strategy.slow
        if sl is not None:
            if me.slow_pending:
                # the slow operation has been performed: from here on the task dawdles
                me.slow_pending = False
                slow = True
            if sync and zlib.crc32(f"{me.name if sl['by_name'] else me.role}|{label}".encode()) % sl["mod"] \
                    == sl["res"] % sl["mod"]:
                if sl["before"]:
                    slow = True
                else:
                    me.slow_pending = True
            if slow:
                me.deferred = True
                self.fault("slow-spot")
        # for the "pre-empt at anchors" strategy every synchronisation point counts as an anchor, not only the
        # source lines a property module has named
        nxt = self._pick(me, label, anchored or sync)
        self._handoff(me, nxt)
        if slow:
            me.deferred = False

    def defer(self, label=""):
        """Yield point at which the caller is as slow as it can legally be: it continues only
        when no other task or internal event can make a step."""
        me = self.current
        self.step += 1
        if self.step > self.max_steps:
            self._end("capped", {})
        self._record(me, "defer:" + label, True)
        me.pred = None
        me.deferred = True
        nxt = self._pick(me, label)
        self._handoff(me, nxt)
        me.deferred = False

    def block(self, pred, waiting):
        """Park the caller until pred() holds *and* the scheduler picks it."""
        me = self.current
        me.pred = pred
        me.waiting = waiting
        self.step += 1
        self._record(me, f"block:{waiting[0]}.{waiting[1]}", True)
        nxt = self._pick(me)
        if nxt is None:
            self._stall()
        self._handoff(me, nxt)
        me.pred = None
        me.waiting = None

    def timed_block(self, pred, waiting):
        """Park the caller in a wait with a timeout.  Returns True if pred() holds when it continues,
        False if the timeout fired (which happens only when nothing else could run)."""
        me = self.current
        me.pred = pred
        me.waiting = waiting
        me.timed = True
        self.step += 1
        self._record(me, f"timed-block:{waiting[0]}.{waiting[1]}", True)
        nxt = self._pick(me)
        if nxt is None:
            self._stall()
        self._handoff(me, nxt)
        me.timed = False
        me.pred = None
        me.waiting = None
        ok = pred()
        if not ok:
            self.probe("timeout-fired")
            # only tasks that poll with timeouts are still moving: after many fruitless rounds this is a
            # hang of a polling implementation, reported like a stall
            self._idle_set.add(me)
            self._idle_fires += 1
            if self._idle_fires > 400:
                self._stall(polling=True)
        return ok

    # ------------------------------------------------------------------ tasks
    def spawn(self, fn, role, proc=None, kind="thread"):
        parent = self.current
        t = Task(len(self.tasks), role, self._mkname(role), parent.proc if proc is None else proc, kind)
        self.tasks.append(t)
        self.strategy.new_task(t)

        def boot():
            t.ident = _thread.get_ident()
            t.lock.acquire()
            t.started = True
            self._install_trace()
            try:
                fn()
            except RunEnd:
                return
            except BaseException as e:  # noqa
                t.error = e
                if type(e).__name__ == "SimUnsupported":
                    self._end("unsupported", {"exc": repr(e)})
                self.task_errors.append((t.name, repr(e), traceback.format_exc()))
            finally:
                sys.settrace(None)
            self._finish(t)

        _thread.start_new_thread(boot, ())
        return t

    def _finish(self, t):
        t.done = True
        self.step += 1
        self._record(t, "exit", True)
        if t.on_done:
            t.on_done()
        nxt = self._pick(None)
        if nxt is None:
            self._stall()
        self.switches += 1
        self.current = nxt
        nxt.lock.release()

    def run(self, main_fn):
        """Run main_fn as task 0 on the calling thread.  Returns via on_end only."""
        t = Task(0, "main", "main", 0, "main")
        t.ident = _thread.get_ident()
        t.started = True
        self.tasks.append(t)
        self.current = t
        # a sleep in the code under test is a timed wait on nothing: the sleeper lets everybody else run
        # (this process is the private child of one run, so the global patch is harmless)
        import time as _time

        def sim_sleep(secs):
            if secs and secs > 0 and self.current is not None and not self.ended:
                self.timed_block(lambda: False, ("time", "sleep"))
        _time.sleep = sim_sleep
        self._install_trace()
        try:
            main_fn()
        except RunEnd:
            raise
        except BaseException as e:  # noqa
            sys.settrace(None)
            t.error = e
            if type(e).__name__ == "SimUnsupported":
                self._end("unsupported", {"exc": repr(e)})
            self._end("crash", {"exc": repr(e), "exc_type": type(e).__name__,
                                "traceback": traceback.format_exc()})
        sys.settrace(None)
        t.done = True
        self._end("complete", {})

    # ------------------------------------------------------------------ end of run
    def unfinished(self):
        return [t for t in self.tasks if not t.done]

    def where(self, t):
        """Innermost frame of task t inside the traced code: (function, source text)."""
        frames = sys._current_frames()
        f = frames.get(t.ident)
        best = None
        while f is not None:
            fn = f.f_code.co_filename
            if self.trace_root and fn.startswith(self.trace_root):
                best = (f.f_code.co_name, (linecache.getline(fn, f.f_lineno) or "").strip(),
                        os.path.basename(fn), f.f_lineno)
                break
            f = f.f_back
        return best

    def _stall(self, polling=False):
        info = []
        for t in self.tasks:
            if t.done:
                continue
            w = self.where(t)
            info.append({"task": t.name, "role": t.role, "waiting": list(t.waiting) if t.waiting else None,
                         "func": w[0] if w else None, "line": w[1] if w else None,
                         "file": w[2] if w else None, "lineno": w[3] if w else None})
        self._end("stall", {"blocked": info, "polling": polling})

    def _end(self, kind, info):
        sys.settrace(None)
        if self.ended:
            _thread.exit()
        self.ended = True
        self.on_end(kind, info)
        raise RunEnd(kind, info)


# ----------------------------------------------------------------------------------------
# threading seam: Thread.start / Thread.join decided by the kernel

_real_start = threading.Thread.start
_real_join = threading.Thread.join


def patch_threading(kernel):
    def start(self):
        if not self._initialized:
            raise RuntimeError("thread.__init__() not called")
        if self._started.is_set():
            raise RuntimeError("threads can only be started once")
        with threading._active_limbo_lock:
            threading._limbo[self] = self
        role = type(self).__name__
        kernel.switch(f"{role}.start", sync=True)
        self._sim_task = kernel.spawn(self._bootstrap, role, kind="thread")

    def join(self, timeout=None):
        t = getattr(self, "_sim_task", None)
        if t is None:
            return _real_join(self, timeout)
        if t is kernel.current:
            raise RuntimeError("cannot join current thread")
        kernel.switch(f"{t.role}.join", sync=True)
        while not t.done:
            if timeout is not None:
                if not kernel.timed_block(lambda: t.done, (t.role, "join")):
                    break
            else:
                kernel.block(lambda: t.done, (t.role, "join"))

    threading.Thread.start = start
    threading.Thread.join = join

    def hook(args):
        # the class name, not Thread-<n>: default thread names carry a process-global counter
        kernel.task_errors.append((type(args.thread).__name__, repr(args.exc_value),
                                   "".join(traceback.format_exception(args.exc_type, args.exc_value,
                                                                      args.exc_traceback))))

    threading.excepthook = hook
