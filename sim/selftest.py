"""Self-tests of the machinery:  ./check selftest determinism|conformance|mutants [...]

determinism  - every engine: same run seed twice, once more in a fresh interpreter under another
               PYTHONHASHSEED, and with 1 vs many batch workers; event-log digests must agree.
conformance  - scripted sequential operation lists against the REAL multiprocessing objects and
               against the stubs; results and exception types must agree.
mutants      - planted defects (mutants/*.json: search/replace edits) applied to a scratch copy of
               the repository outside /repo and /verif; the named check must report a violation.
"""
import concurrent.futures
import json
import multiprocessing
import os
import queue
import shutil
import subprocess
import sys
import tempfile
import time

from .choice import derive_seed
from . import runner

PROPS = ["C01", "C02", "C03", "C04", "C05", "C11", "C12", "C14", "C18", "C20"]
_SPEC = None


def _get_spec(prop):
    import main
    return main.get_spec(prop)


def _digest_one(args):
    tier, seed = args
    r = runner.run_in_child(_SPEC, tier, seed)
    return seed, r.get("verdict"), r.get("digest")


def digests(spec, tier, seeds, jobs):
    global _SPEC
    _SPEC = spec
    if hasattr(spec, "prepare"):
        spec.prepare()
    if jobs == 1:
        return [_digest_one((tier, s)) for s in seeds]
    ctx = multiprocessing.get_context("fork")
    with concurrent.futures.ProcessPoolExecutor(max_workers=jobs, mp_context=ctx) as ex:
        return list(ex.map(_digest_one, [(tier, s) for s in seeds], chunksize=4))


def cmd_digests(argv):
    prop, tier, n, jobs = argv[0], argv[1], int(argv[2]), int(argv[3])
    spec = _get_spec(prop)
    seeds = [derive_seed("selftest", prop, i) % (1 << 48) for i in range(n)]
    out = digests(spec, tier, seeds, jobs)
    print(json.dumps(out))
    return 0


def cmd_determinism(argv):
    n = int(argv[0]) if argv else 120
    props = argv[1:] or PROPS
    bad = 0
    total = 0
    for prop in props:
        spec = _get_spec(prop)
        seeds = [derive_seed("selftest", prop, i) % (1 << 48) for i in range(n)]
        t0 = time.monotonic()
        a = digests(spec, "quick", seeds, 16)
        b = digests(spec, "quick", seeds, 1 if n <= 40 else 3)
        env = dict(os.environ, PYTHONHASHSEED="1", VERIF_HASHSEED="1")
        out = subprocess.run([sys.executable, os.path.join(runner.VERIF_DIR, "main.py"), "selftest", "digests",
                              prop, "quick", str(n), "7"], env=env, capture_output=True, text=True, timeout=1800)
        try:
            c = [tuple(x) for x in json.loads(out.stdout.strip().split("\n")[-1])]
        except Exception:  # noqa
            print(f"HARNESS-ERROR determinism {prop}: fresh interpreter failed: {out.stderr[-500:]}")
            bad += 1
            continue
        mism = [s for (s, v1, d1), (_, v2, d2), (_, v3, d3) in zip(a, b, c) if not (d1 == d2 == d3 and v1 == v2 == v3) or d1 is None]
        total += n
        print(f"determinism {prop}: {n} seeds x (16 workers, few workers, fresh interpreter with PYTHONHASHSEED=1): "
              f"{len(mism)} mismatches ({time.monotonic() - t0:.1f}s)")
        if mism:
            print(f"  mismatching seeds: {mism[:5]}")
            bad += 1
    print(f"determinism: {total} seeds compared three ways, {'OK' if not bad else 'FAILED'}")
    return 0 if not bad else 2


# ----------------------------------------------------------------------------------------
# conformance of the stubs

def _script_manager_queue(q, Full, Empty):
    out = []

    def t(fn):
        try:
            out.append(fn())
        except Exception as e:  # noqa
            out.append(type(e).__name__)
    t(lambda: q.empty())
    t(lambda: q.put((0, [1, 2])))
    t(lambda: q.put("b"))
    t(lambda: q.full())
    t(lambda: q.qsize())
    t(lambda: q.put("c", block=False))
    t(lambda: q.put_nowait("c"))
    t(lambda: q.put("c", True, 0.01))
    t(lambda: q.get())
    t(lambda: q.qsize())
    t(lambda: q.get(block=False))
    t(lambda: q.get(block=False))
    t(lambda: q.get_nowait())
    t(lambda: q.get(True, 0.01))
    t(lambda: q.empty())
    t(lambda: q.put(None))
    t(lambda: q.get())
    return out


def _script_list(l):
    out = []

    def t(fn):
        try:
            out.append(fn())
        except Exception as e:  # noqa
            out.append(type(e).__name__)
    t(lambda: len(l))
    t(lambda: l.append("a"))
    t(lambda: l.extend(["b", None, (1, 2)]))
    t(lambda: l[0])
    t(lambda: l[3])
    t(lambda: l[9])
    t(lambda: l[-1])
    t(lambda: l.remove("zz"))
    t(lambda: l.remove("b"))
    t(lambda: list(l))
    t(lambda: l.pop())
    t(lambda: l.pop(0))
    t(lambda: l.__setitem__(0, ("x", 5)))
    t(lambda: l.__setitem__(7, 1))
    t(lambda: [x for x in l])
    t(lambda: l.__delitem__(0))
    t(lambda: len(l))
    t(lambda: l.pop())
    t(lambda: l.pop())
    t(lambda: l.extend([None] * 3))
    t(lambda: l[1] is None)
    t(lambda: l.__setitem__(slice(None, None), []))
    t(lambda: len(l))
    t(lambda: l.insert(5, "q"))
    t(lambda: l[:])
    t(lambda: "q" in l)
    # iteration while growing: the proxy has no __iter__, python falls back to __getitem__
    l.extend([1, 2])
    seen = []
    for x in l:
        seen.append(x)
        if len(seen) == 1:
            l.append(99)
    out.append(seen)
    return out


def _script_lock(lock):
    out = []

    def t(fn):
        try:
            out.append(fn())
        except Exception as e:  # noqa
            out.append(type(e).__name__)
    t(lambda: lock.acquire())
    t(lambda: lock.acquire(False))
    t(lambda: lock.acquire(True, 0.01))
    t(lambda: lock.release())
    t(lambda: lock.release())
    t(lambda: lock.__enter__())
    t(lambda: lock.__exit__(None, None, None))
    t(lambda: lock.acquire(False))
    t(lambda: lock.release())
    return out


def _script_rlock(lock):
    out = []

    def t(fn):
        try:
            out.append(fn())
        except Exception as e:  # noqa
            out.append(type(e).__name__)
    t(lambda: lock.acquire())
    t(lambda: lock.acquire())
    t(lambda: lock.acquire(False))
    t(lambda: lock.release())
    t(lambda: lock.release())
    t(lambda: lock.release())
    t(lambda: lock.release())
    with lock:
        with lock:
            out.append("nested")
    return out


def _script_event(e):
    out = [e.is_set(), e.wait(0.01), e.set(), e.is_set(), e.wait(), e.wait(0.01), e.clear(), e.is_set()]
    return out


def _script_condition(c):
    """Single-threaded observations of a Condition: what is returned / raised without a second party."""
    out = []
    try:
        c.wait(0.01)
    except RuntimeError as e:
        out.append(type(e).__name__)
    try:
        c.notify()
    except RuntimeError as e:
        out.append(type(e).__name__)
    with c:
        out.append(c.notify())
        out.append(c.notify_all())
        out.append(c.wait(0.01))
        out.append(c.wait_for(lambda: True))
        out.append(c.wait_for(lambda: False, 0.01))
        with c:     # the default lock is recursive
            out.append(c.wait(0.01))
    out.append(c.acquire())
    out.append(c.release())
    return out


def _script_value(v):
    out = [v.value]
    v.value = 5
    v.value += 1
    out.append(v.value)
    with v.get_lock():
        v.value -= 2
    out.append(v.value)
    return out


def _script_pipe_queue(q, settle):
    out = []
    q.put((0, ["x"]))
    q.put(None)
    q.put("z")
    settle()
    out.append(q.qsize())
    out.append(q.get())
    out.append(q.get(False) if settle() is None else None)
    out.append(q.get())
    try:
        q.get(False)
        out.append("got")
    except queue.Empty:
        out.append("Empty")
    out.append(q.empty())
    return out


def cmd_conformance(argv):
    from .choice import Choice
    from .kernel import Kernel, Strategy, RunEnd
    from .prims import SimContext
    real_ctx = multiprocessing.get_context("fork")
    results = {}

    # real objects
    m = real_ctx.Manager()
    try:
        results["manager.Queue(2)"] = [_script_manager_queue(m.Queue(2), queue.Full, queue.Empty)]
        results["manager.list"] = [_script_list(m.list())]
    finally:
        m.shutdown()
    results["Lock"] = [_script_lock(real_ctx.Lock())]
    results["RLock"] = [_script_rlock(real_ctx.RLock())]
    results["Event"] = [_script_event(real_ctx.Event())]
    import threading
    results["threading.Event"] = [_script_event(threading.Event())]
    results["threading.Condition"] = [_script_condition(threading.Condition())]
    results["Value"] = [_script_value(real_ctx.Value("i", 0))]
    rq = real_ctx.Queue()
    results["Queue"] = [_script_pipe_queue(rq, lambda: time.sleep(0.2))]
    rq.close()
    rq.join_thread()
    sq = real_ctx.SimpleQueue()
    sq.put(1)
    sq.put(None)
    results["SimpleQueue"] = [[sq.get(), sq.get(), sq.empty()]]

    # stubs, inside a single-task kernel
    box = {}

    def main():
        ctx = SimContext(k, pipe_delay=True)
        mm = ctx.Manager()
        box["manager.Queue(2)"] = _script_manager_queue(mm.Queue(2), queue.Full, queue.Empty)
        box["manager.list"] = _script_list(mm.list())
        box["Lock"] = _script_lock(ctx.Lock())
        box["RLock"] = _script_rlock(ctx.RLock())
        box["Event"] = _script_event(ctx.Event())
        from .prims import ThreadingShim
        box["threading.Event"] = _script_event(ThreadingShim(k).Event())
        box["threading.Condition"] = _script_condition(ThreadingShim(k).Condition())
        box["Value"] = _script_value(ctx.Value("i", 0))
        pq = ctx.Queue()

        def settle():
            # let the simulated feeder deliver everything (what the real settle wait achieves)
            while any(e.enabled() for e in k.internal):
                k.switch("settle")
        box["Queue"] = _script_pipe_queue(pq, settle)
        s2 = ctx.SimpleQueue()
        s2.put(1)
        s2.put(None)
        box["SimpleQueue"] = [s2.get(), s2.get(), s2.empty()]

    ended = {}

    def on_end(kind, info):
        ended["kind"] = kind
        ended["info"] = info

    ch = Choice(1)
    k = Kernel(ch, Strategy(ch.sched_rng()), on_end)
    try:
        k.run(main)
    except RunEnd:
        pass
    bad = 0
    if ended.get("kind") != "complete":
        print(f"HARNESS-ERROR conformance: stub script ended with {ended}")
        return 2
    for name, (real,) in results.items():
        sim = box.get(name)
        ok = json.dumps(real, default=repr) == json.dumps(sim, default=repr)
        print(f"conformance {name}: {'OK' if ok else 'MISMATCH'} ({len(real)} observations)")
        if not ok:
            bad += 1
            print(f"   real: {real}\n   stub: {sim}")
    print(f"conformance: {'OK' if not bad else 'FAILED'}")
    return 0 if not bad else 2


# ----------------------------------------------------------------------------------------
# mutants

def load_mutants():
    d = os.path.join(runner.VERIF_DIR, "mutants")
    out = []
    for fn in sorted(os.listdir(d)):
        if fn.endswith(".json"):
            m = json.load(open(os.path.join(d, fn)))
            m["name"] = fn[:-5]
            out.append(m)
    return out


def apply_mutant(m, root):
    for e in m["edits"]:
        p = os.path.join(root, e["file"])
        s = open(p, encoding="utf-8").read()
        if s.count(e["old"]) != 1:
            raise RuntimeError(f"mutant {m['name']}: pattern found {s.count(e['old'])} times in {e['file']}")
        s = s.replace(e["old"], e["new"])
        open(p, "w", encoding="utf-8").write(s)


def run_mutant(m, runs=None, rate=False):
    scratch = tempfile.mkdtemp(prefix="verif-mutant-")
    try:
        shutil.copytree(os.path.join(runner.REPO_ROOT, "windpyutils"), os.path.join(scratch, "windpyutils"))
        apply_mutant(m, scratch)
        rows = []
        for prop in m["detected_by"]:
            env = dict(os.environ, VERIF_REPO=scratch, VERIF_EVIDENCE_DIR=os.path.join(scratch, "evidence"),
                       VERIF_REPLAY_DIR=os.path.join(scratch, "replays"))
            if runs:
                env["VERIF_RUNS"] = str(runs)
            if rate:
                # the whole batch is run (no stop at the first report, no minimisation of more than the first classes):
                # how MANY runs of a quick batch report the planted defect tells a solid detection from a lucky one
                env["VERIF_KEEP_GOING"] = "1"
                env["VERIF_SEED"] = "3"
            t0 = time.monotonic()
            out = subprocess.run([os.path.join(runner.VERIF_DIR, "check"), prop, "quick"], env=env,
                                 capture_output=True, text=True, timeout=1200)
            viol = [l for l in out.stdout.split("\n") if l.startswith("violation ")]
            first = viol[0][:160] if viol else out.stdout[-300:]
            if rate:
                import re
                mm = re.search(r"runs=(\d+) .*violation_runs=(\d+)", out.stdout)
                first = (f"reporting runs: {mm.group(2)} of {mm.group(1)}  " if mm else "") + first[:100]
            rows.append((prop, out.returncode, time.monotonic() - t0, first))
        return rows
    finally:
        shutil.rmtree(scratch, ignore_errors=True)


def cmd_mutants(argv):
    muts = load_mutants()
    rate = "--rate" in argv
    argv = [a for a in argv if a != "--rate"]
    if argv:
        muts = [m for m in muts if m["name"] in argv or any(a in m["detected_by"] for a in argv)]
    bad = 0
    with concurrent.futures.ThreadPoolExecutor(max_workers=3) as ex:
        futs = {m["name"]: ex.submit(run_mutant, m, None, rate) for m in muts}
        for m in muts:
            try:
                rows = futs[m["name"]].result()
            except Exception as e:  # noqa
                print(f"mutant {m['name']}: HARNESS-ERROR {e}")
                bad += 1
                continue
            for prop, code, wall, first in rows:
                ok = code == 1
                if not ok:
                    bad += 1
                print(f"mutant {m['name']} [{prop}]: {'DETECTED' if ok else 'MISSED (exit %d)' % code} in {wall:.1f}s  {first}")
    print(f"mutants: {len(muts)} planted, {'all detected' if not bad else str(bad) + ' not detected'}")
    return 0 if not bad else 1


def cmd_reality(argv):
    """Run the stand-alone real-process demonstrations (no simulator) against the repository: each was
    written to fail on the defect it documents and must exit 0 on the repaired tree."""
    import signal
    d = os.path.join(runner.VERIF_DIR, "findings")
    bad = 0
    names = sorted(f for f in os.listdir(d) if f.startswith("real_") and f.endswith(".py"))
    for fn in names:
        t0 = time.monotonic()
        p = subprocess.Popen([sys.executable, os.path.join(d, fn), runner.REPO_ROOT], stdout=subprocess.PIPE,
                             stderr=subprocess.STDOUT, start_new_session=True, text=True)
        try:
            out, _ = p.communicate(timeout=120)
            code = p.returncode
        except subprocess.TimeoutExpired:
            code = -9
            out = "(timeout)"
        try:
            os.killpg(p.pid, signal.SIGKILL)
        except Exception:  # noqa
            pass
        ok = code == 0
        bad += not ok
        last = (out or "").strip().split("\n")[-1][:120]
        print(f"reality {fn}: {'OK' if ok else 'FAILED exit %s' % code} ({time.monotonic() - t0:.1f}s) {last}")
    print(f"reality: {len(names)} real-process demonstrations, {'all pass on this tree' if not bad else str(bad) + ' FAIL'}")
    return 0 if not bad else 1


EXPECTED_REACH = {
    # fault kinds and probes that every quick batch must actually hit (fired, not merely configured): a workload edit
    # that silently switches a fault family off (it happened: C12's fault-injecting saves lost their draw values
    # to new operations) shows here
    "C01": ["slow-spot", "late-item", "slow-functor", "late-exhaustion", "cond-between-put-and-cnt", "worker-retired"],
    "C02": ["slow-spot", "late-exhaustion", "flow-control-paused-feeder", "consumer-waited-for-feeder-progress"],
    "C03": ["slow-spot", "slow-create", "worker-retired", "replacement-started"],
    "C04": ["begin-raises", "functor-raises", "slow-begin", "worker-retired"],
    "C05": ["slow-spot", "slow-spot-delivery", "slow-functor"],
    "C11": ["short-read", "interleaved-iteration", "custom-index-iteration"],
    "C12": ["write-error", "torn-write", "short-write", "open-error", "read-EIO", "save", "edit"],
    "C14": ["torn-write", "write-error-transient", "write-error-persistent", "unencodable-text", "slow-spot", "iteration-over-gap"],
    "C18": ["open-EMFILE", "iterator-across-fork", "grandchild", "interleaved-seek-read"],
    "C20": ["exception-in-body", "external-delete", "failed-enter-then-retry", "file-vanished-before-remove",
            "disk-full-at-close", "slow-spot", "real-fork"],
}


def cmd_reach(argv):
    """Read the evidence files of the last quick runs: every expected fault kind / probe must have a non-zero count."""
    bad = 0
    for prop, names in sorted(EXPECTED_REACH.items()):
        path = os.path.join(runner.VERIF_DIR, "evidence", prop + ".json")
        try:
            cov = json.load(open(path))["coverage"]
        except Exception as e:  # noqa
            print(f"reach {prop}: no evidence ({e})")
            bad += 1
            continue
        seen = dict(cov.get("probes", {}))
        seen.update(cov.get("fault_kinds_fired", {}))
        zero = [n for n in names if not seen.get(n)]
        bad += bool(zero)
        print(f"reach {prop}: " + ("OK " + ", ".join(f"{n}={seen[n]}" for n in names) if not zero else "AT ZERO: " + ", ".join(zero)))
    print("reach: " + ("every expected fault kind and probe was hit" if not bad else f"{bad} checks have fault kinds or probes at zero"))
    return 0 if not bad else 1


def main(argv):
    if not argv:
        print(__doc__)
        return 2
    cmd = argv[0]
    if cmd == "reach":
        return cmd_reach(argv[1:])
    if cmd == "digests":
        return cmd_digests(argv[1:])
    if cmd == "determinism":
        return cmd_determinism(argv[1:])
    if cmd == "conformance":
        return cmd_conformance(argv[1:])
    if cmd == "mutants":
        return cmd_mutants(argv[1:])
    if cmd == "reality":
        return cmd_reality(argv[1:])
    if cmd == "realsoak":
        from . import realsoak
        return realsoak.main(argv[1:])
    print(__doc__)
    return 2
