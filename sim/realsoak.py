"""Reality soak: the same seeded plans as the simulated checks, executed with the REAL multiprocessing
(fork context, real manager, real threads, real pipes) and no schedule control.

Purpose: cross-check of the trusted base of engine A.  The stubs are compared with the real objects
operation by operation in `selftest conformance`; this self-test compares at system level: whatever
the OS schedule happens to be, the real library driven by a plan must satisfy the same result oracle
and terminate.  It is NOT the deciding method of any property (the schedule is not controlled, a
failure does not replay); a failure here means either a defect the simulator should also find, or a
stub that is more permissive than reality.

usage: ./check selftest realsoak [pools|map|storage|all] [N]
"""
import concurrent.futures
import json
import math
import multiprocessing
import os
import signal
import sys
import tempfile
import shutil
import time

from .choice import Choice, derive_seed
from . import runner

PAUSE = 0.002
LATE = 0.05
WATCHDOG = 25


def _arm(emit, what):
    def on_alarm(signum, frame):
        import traceback
        stack = "".join(traceback.format_stack(frame)[-6:])
        emit({"verdict": "violation", "violations": [{"class": "real-hang", "site": what,
                                                       "message": "no termination within %ds; main thread at: %s" % (WATCHDOG, stack[-600:])}]})
    signal.signal(signal.SIGALRM, on_alarm)
    signal.alarm(WATCHDOG)


class RealPools:
    PROPERTY = "realsoak-pools"

    def prepare(self):
        import windpyutils.parallel.own_proc_pools  # noqa

    def run(self, tier, run_seed, replay, trace, emit0):
        from props import poolsim
        os.setsid()
        wfd = [c.cell_contents for c in (emit0.__closure__ or ()) if isinstance(c.cell_contents, int)][0]

        def emit(res):
            signal.alarm(0)
            try:
                os.write(wfd, json.dumps(res, default=repr).encode())
            finally:
                os.killpg(0, signal.SIGKILL)

        choice = Choice(run_seed)
        family = ["single", "multi", "multi"][choice.draw(3, "real.family")]
        plan = poolsim.build_plan(choice, "quick", family)
        _arm(emit, "pool")
        from windpyutils.parallel.own_proc_pools import (BaseFunctorWorker, FunctorPool, FactoryFunctorPool,
                                                          FunctorWorkerFactory)
        ctx = multiprocessing.get_context("fork")
        fpause = plan["functor_pause"]

        class W(BaseFunctorWorker, ctx.Process):
            def __init__(self, quota):
                super().__init__(ctx, quota)

            def begin(self):
                if plan["begin_pause"]:
                    time.sleep(PAUSE)

            def __call__(self, x):
                if fpause == 1:
                    time.sleep(PAUSE)
                elif fpause == 2 and x[1] % 3 == 0:
                    time.sleep(LATE / 5)
                return (x[0], x[1], "r")

            def end(self):
                if plan["end_pause"] == 2:
                    time.sleep(PAUSE)
                elif plan["end_pause"] == 3:
                    time.sleep(LATE)

        class F(FunctorWorkerFactory):
            def create(self):
                return W(plan["quota"])

        kw = {"context": ctx, "work_queue_maxsize": plan["wq_max"], "results_queue_maxsize": plan["rq_max"]}
        if plan["factory"]:
            pool = FactoryFunctorPool(plan["workers"], F(), **kw)
        else:
            pool = FunctorPool([W(math.inf) for _ in range(plan["workers"])], **kw)

        def data_iter(c, call):
            pauses = set(call["pause_items"])
            for i in range(call["n"]):
                if i in pauses:
                    time.sleep(LATE if call.get("defer_items") else PAUSE)
                yield (c, i)
            if call["pause_stop"] == 1:
                time.sleep(PAUSE)
            elif call["pause_stop"] == 2:
                time.sleep(LATE)

        obs = {"outs": [], "call_state": [], "leftover": []}
        with pool:
            for c, call in enumerate(plan["calls"]):
                out = []
                obs["outs"].append(out)
                obs["call_state"].append("running")
                data = data_iter(c, call) if call["lazy"] else poolsim.typed_input(c, call)
                gen = (pool.imap if call["ordered"] else pool.imap_unordered)(data, call["chunk"])
                for v in gen:
                    out.append(v)
                    if plan["consumer_pause"] == 1:
                        time.sleep(PAUSE / 4)
                    elif plan["consumer_pause"] == 2 and len(out) % 2 == 1:
                        time.sleep(PAUSE * 2)
                obs["call_state"][c] = "done"
                obs["leftover"].append([])
            alive_procs = list(pool.procs)
        viol = poolsim.check_results(plan, obs)
        still = [p.wid for p in alive_procs if p.exitcode is None]
        if still:
            viol.append({"class": "left-running", "site": "real", "message": f"workers {still} alive after __exit__"})
        emit({"verdict": "violation" if viol else "ok", "violations": viol, "plan": poolsim.plan_readable(plan, _NoStrategy()),
              "digest": "", "nontrivial": True, "signature": str(run_seed), "steps": sum(len(o) for o in obs["outs"])})


class _NoStrategy:
    def describe(self):
        return {"name": "os-scheduler"}


class RealMap:
    PROPERTY = "realsoak-map"

    def prepare(self):
        # windpyutils.parallel.workers creates its class-level queues at import: it must be imported in
        # the run's own process, otherwise all concurrently forked runs would share one pair of pipes
        import windpyutils.parallel.pools  # noqa

    def run(self, tier, run_seed, replay, trace, emit0):
        from props import c05
        os.setsid()
        wfd = [c.cell_contents for c in (emit0.__closure__ or ()) if isinstance(c.cell_contents, int)][0]

        def emit(res):
            signal.alarm(0)
            try:
                os.write(wfd, json.dumps(res, default=repr).encode())
            finally:
                os.killpg(0, signal.SIGKILL)

        choice = Choice(run_seed)
        plan = c05.build_plan(choice, "quick")
        _arm(emit, plan["mode"])
        import windpyutils.parallel.pools as pools
        import windpyutils.parallel.maps as maps
        from props.poolsim import typed_input
        fp = plan["functor_pause"]

        def pf(x):
            if fp == 1:
                time.sleep(PAUSE)
            elif fp == 2 and x[1] % 3 == 0:
                time.sleep(LATE / 5)
            return (x[0], x[1], "r")

        def data_of(c, call):
            if call["lazy"]:
                def gen():
                    for i in range(call["n"]):
                        if i % 2:
                            time.sleep(PAUSE)
                        yield (c, i)
                return gen()
            return typed_input(c, call)

        obs = {"outs": [], "call_state": [], "phase": "inside"}
        if plan["mode"] == "FunctorMap":
            fm = pools.FunctorMap(pf, plan["workers"])
            with fm:
                for c, call in enumerate(plan["calls"]):
                    out = []
                    obs["outs"].append(out)
                    obs["call_state"].append("running")
                    gen = fm(data_of(c, call), call["chunk"])
                    if call["consume"] == "exact":
                        gen = c05.take(gen, call["n"])
                    for v in gen:
                        out.append(v)
                    obs["call_state"][c] = "done"
            procs = fm.procs
        else:
            for c, call in enumerate(plan["calls"]):
                obs["call_state"].append("running")
                obs["outs"].append(list(maps.mul_p_map(pf, data_of(c, call), plan["workers"])))
                obs["call_state"][c] = "done"
            procs = []
        obs["unfinished_at_exit"] = [i for i, p in enumerate(procs) if p.exitcode is None]

        class K:
            task_errors = []
        res = c05.evaluate(plan, obs, K, "complete", {})
        res.update({"plan": plan, "digest": "", "nontrivial": True, "signature": str(run_seed),
                    "steps": sum(len(o) for o in obs["outs"])})
        emit(res)


class RealStorage:
    PROPERTY = "realsoak-storage"

    def prepare(self):
        import windpyutils.parallel.storage  # noqa

    def run(self, tier, run_seed, replay, trace, emit0):
        from props import c14
        os.setsid()
        wfd = [c.cell_contents for c in (emit0.__closure__ or ()) if isinstance(c.cell_contents, int)][0]
        tmp = tempfile.mkdtemp(prefix="verif-real14-")

        def emit(res):
            signal.alarm(0)
            shutil.rmtree(tmp, ignore_errors=True)
            try:
                os.write(wfd, json.dumps(res, default=repr).encode())
            finally:
                os.killpg(0, signal.SIGKILL)

        choice = Choice(run_seed)
        plan = c14.build_plan(choice, "quick")
        plan["torn"] = False
        plan["write_fault"] = None
        for sc in plan["writer_scripts"]:
            for o in sc:
                if o[0] == "store" and "\udcff" in o[2]:
                    o[2] = o[2].replace("\udcff", "u")
        _arm(emit, "storage")
        import windpyutils.parallel.storage as st
        ctx = multiprocessing.get_context("fork")
        storage = st.TextFileStorage(tmp, number_of_data=plan["presize"])
        q = ctx.Queue()

        def actor(storage, script, who, writer):
            storage.reader_only = not writer
            ops = []
            if writer or plan.get("readers_open", True):
                storage.open()
            try:
                for op in script:
                    a = time.monotonic()
                    kind = op[0]
                    rec = {"who": who, "kind": kind, "a": a}
                    try:
                        if kind == "store":
                            rec.update(g=op[1], text=op[2])
                            try:
                                storage[op[1]] = op[2]
                                rec["ok"] = True
                            except ValueError:
                                rec["ok"] = False
                        elif kind == "reopen":
                            storage.close()
                            storage.open()
                            continue
                        elif kind == "get":
                            rec["g"] = op[1]
                            try:
                                rec["res"] = storage[op[1]]
                            except IndexError:
                                rec["res"] = None
                        elif kind == "len":
                            rec["res"] = len(storage)
                        elif kind == "list":
                            rec["res"] = list(storage)
                    except Exception as e:  # noqa
                        rec["error"] = repr(e)
                    rec["b"] = time.monotonic()
                    ops.append(rec)
            finally:
                storage.close()
            q.put(ops)

        procs = [ctx.Process(target=actor, args=(storage, s, f"w{i}", True)) for i, s in enumerate(plan["writer_scripts"])]
        procs += [ctx.Process(target=actor, args=(storage, s, f"r{i}", False)) for i, s in enumerate(plan["reader_scripts"])]
        allops = []
        if plan.get("parent_stores_first"):
            # the parent stores (and closes, or not) BEFORE the processes are forked
            storage.open()
            a = time.monotonic()
            storage[plan["n"] + 3] = "stored by the parent before any fork"
            allops.append({"who": "parent", "kind": "store", "g": plan["n"] + 3, "ok": True, "a": a, "b": time.monotonic(),
                           "text": "stored by the parent before any fork"})
            if plan["parent_stores_first"] == "closed":
                storage.close()
        for p in procs:
            p.start()
        if plan.get("parent_stores_first") == "open":
            storage.close()
        for _ in procs:
            allops.extend(q.get())
        for p in procs:
            p.join()
        if plan.get("late_readers"):
            # the parent reads, THEN reader processes are forked
            storage.reader_only = True
            for g in plan["late_parent_reads"]:
                try:
                    storage[g]
                except IndexError:
                    pass
            late = [ctx.Process(target=actor, args=(storage, sc, f"late-r{i}", False)) for i, sc in enumerate(plan["late_readers"])]
            for p in late:
                p.start()
            for _ in late:
                allops.extend(q.get())
            for p in late:
                p.join()
            procs += late
            storage.close()
        hist = c14.History()
        hist.ops = allops
        obs = {"hist": hist, "exitcodes": [p.exitcode for p in procs], "phase": "quiescent"}
        storage.reader_only = True
        qd = {}
        with storage:
            qd["len"] = len(storage)
            qd["contiguous"] = storage.is_contiguous()
            qd["list"] = list(storage)
            reads = {}
            for g in range(plan["n"] + 2):
                try:
                    reads[g] = storage[g]
                except IndexError:
                    reads[g] = None
            qd["reads"] = reads
        qd["files"] = {}
        for fn in sorted(os.listdir(tmp)):
            with open(os.path.join(tmp, fn), "rb") as f:
                qd["files"][fn] = f.read().decode("utf-8", "replace")
        obs["quiescent"] = qd
        storage.flush()
        fl = {"files_left": sorted(os.listdir(tmp)), "len": len(storage)}
        with storage:
            r = {}
            for g in range(plan["n"] + 2):
                try:
                    r[g] = storage[g]
                except IndexError:
                    r[g] = None
            fl["reads"] = r
            fl["list"] = list(storage)
        obs["flushed"] = fl

        class K:
            task_errors = []
        res = c14.evaluate(plan, obs, K, "complete", {})
        res.update({"plan": c14.plan_short(plan), "digest": "", "nontrivial": True, "signature": str(run_seed),
                    "steps": len(allops)})
        emit(res)


SPECS = {"pools": RealPools, "map": RealMap, "storage": RealStorage}
_SPEC = None


def _one(seed):
    return runner.run_in_child(_SPEC, "quick", seed)


def soak(kind, n, jobs=8):
    global _SPEC
    _SPEC = SPECS[kind]()
    _SPEC.prepare()
    seeds = [derive_seed("realsoak", kind, int(os.environ.get("VERIF_SEED", "0")), i) % (1 << 48) for i in range(n)]
    ctx = multiprocessing.get_context("fork")
    ok = bad = herr = 0
    first = None
    t0 = time.monotonic()
    with concurrent.futures.ProcessPoolExecutor(max_workers=jobs, mp_context=ctx) as ex:
        for res in ex.map(_one, seeds, chunksize=2):
            v = res.get("verdict")
            if v == "ok":
                ok += 1
            elif v == "violation":
                bad += 1
                if first is None:
                    first = res
            else:
                herr += 1
                if first is None:
                    first = res
    wall = time.monotonic() - t0
    print(f"realsoak {kind}: {n} real-process runs ({wall:.0f}s): ok={ok} violations={bad} harness_errors={herr}")
    if first is not None:
        print("  first problem:", json.dumps({k: first.get(k) for k in ("seed", "verdict", "violations", "message", "plan")}, default=repr)[:1500])
    return 0 if not bad and not herr else 1


def main(argv):
    kind = argv[0] if argv else "all"
    n = int(argv[1]) if len(argv) > 1 else 300
    kinds = list(SPECS) if kind == "all" else [kind]
    rc = 0
    for k in kinds:
        rc |= soak(k, n)
    return rc
