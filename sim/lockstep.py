"""Engine B: lock-step real fork.

The processes are REAL (os.fork, real kernel file descriptions, real lseek/read/close/open).
What is simulated is only *when* each of them takes its next step: every actor stops before
each traced source line of the code under test (sys.settrace) and at every operation boundary,
reports 'ready' to the director over a pipe and blocks until the director sends it one byte.
Exactly one actor runs at a time, the director's choices come from the choice source, so the
kernel sees exactly the sequence of system calls the seed decides.
"""
import hashlib
import json
import os
import select
import struct
import sys


class ActorDied(Exception):
    pass


def _send(fd, obj):
    data = json.dumps(obj).encode()
    os.write(fd, struct.pack("<I", len(data)) + data)


def _recv_exact(fd, n, timeout):
    buf = b""
    while len(buf) < n:
        r, _, _ = select.select([fd], [], [], timeout)
        if not r:
            raise ActorDied("timeout waiting for an actor")
        b = os.read(fd, n - len(buf))
        if not b:
            raise ActorDied("actor closed its pipe (died)")
        buf += b
    return buf


def _recv(fd, timeout=15.0):
    (n,) = struct.unpack("<I", _recv_exact(fd, 4, timeout))
    return json.loads(_recv_exact(fd, n, timeout))


class Channels:
    """Pipes for up to max_actors actors, created before the first fork so that every process
    inherits all of them."""

    def __init__(self, max_actors):
        self.cmd = [os.pipe() for _ in range(max_actors)]    # director -> actor
        self.rep = [os.pipe() for _ in range(max_actors)]    # actor -> director


class Actor:
    """Runs inside an actor process."""

    def __init__(self, index, chans: Channels, trace_file):
        self.index = index
        self.chans = chans
        self.trace_file = trace_file
        self.children = []
        self.pending = {}

    def stop(self, at, **extra):
        msg = {"at": at}
        msg.update(self.pending)
        msg.update(extra)
        self.pending = {}
        _send(self.chans.rep[self.index][1], msg)
        b = os.read(self.chans.cmd[self.index][0], 1)
        if not b:
            os._exit(7)
        return b

    def tracer(self, frame, event, arg):
        if frame.f_code.co_filename != self.trace_file:
            return None
        return self._local

    def _local(self, frame, event, arg):
        if event == "line":
            self.stop(f"L{frame.f_lineno}")
        return self._local

    def traced(self, fn):
        sys.settrace(self.tracer)
        try:
            return fn()
        finally:
            sys.settrace(None)

    def fork(self, new_index, child_main):
        """Fork a new actor. In the child, child_main(Actor) runs and never returns."""
        pid = os.fork()
        if pid == 0:
            sys.settrace(None)
            a = Actor(new_index, self.chans, self.trace_file)
            try:
                child_main(a)
            finally:
                os._exit(0)
        self.children.append(pid)
        self.pending["forked"] = new_index

    def finish(self):
        self.stop("done", done=True)
        for pid in self.children:
            try:
                os.waitpid(pid, 0)
            except ChildProcessError:
                pass
        os._exit(0)


class Director:
    def __init__(self, choice, chans: Channels, stickiness=0.5):
        self.choice = choice
        self.rng = choice.sched_rng()
        self.chans = chans
        self.stickiness = stickiness
        self.ready = []          # actor indices, creation order
        self.done = []
        self.created = []
        self.step = 0
        self.switches = 0
        self.max_live = 0
        self.last = None
        self._log = hashlib.sha256()
        self._sig = hashlib.sha256()
        self.trace = None
        self.results = []        # (actor, op index, value or error)
        self.last_at = {}

    def _note(self, actor, at):
        self._log.update(f"{self.step}|{actor}|{at}\n".encode())
        if not at.startswith("L"):
            self._sig.update(f"{actor}|{at}\n".encode())
        if self.trace is not None:
            self.trace.append(f"{self.step} actor{actor} {at}")

    def _absorb(self, actor, msg):
        self.last_at[actor] = msg["at"]
        if "result" in msg:
            self.results.append((actor, msg["result"]))
            self._sig.update(f"{actor}|res\n".encode())
        if "forked" in msg:
            j = msg["forked"]
            first = _recv(self.chans.rep[j][0])
            self.created.append(j)
            self.ready.append(j)
            self._absorb(j, first)
            self._note(j, "born")
        if msg.get("done"):
            self.ready.remove(actor)
            self.done.append(actor)

    def start(self, first_actor):
        first = _recv(self.chans.rep[first_actor][0])
        self.created.append(first_actor)
        self.ready.append(first_actor)
        self._absorb(first_actor, first)

    def run(self, max_steps=20000):
        while self.ready:
            self.max_live = max(self.max_live, len(self.ready))
            opts = list(self.ready)
            if self.last in opts:
                opts.remove(self.last)
                opts.insert(0, self.last)
            if len(opts) == 1:
                idx = 0
            else:
                def pick():
                    if opts[0] == self.last and self.rng.random() < self.stickiness:
                        return 0
                    return self.rng.randrange(len(opts))
                idx = self.choice.decide(len(opts), pick)
            a = opts[idx]
            if a != self.last:
                self.switches += 1
            self.last = a
            self.step += 1
            if self.step > max_steps:
                raise ActorDied("step cap")
            self._note(a, self.last_at.get(a, "?"))
            os.write(self.chans.cmd[a][1], b"g")
            msg = _recv(self.chans.rep[a][0])
            self._absorb(a, msg)
        # everybody reported done and waits for the exit byte: release in reverse creation order
        for a in reversed(self.created):
            try:
                os.write(self.chans.cmd[a][1], b"x")
            except OSError:
                pass

    def digest(self):
        return self._log.hexdigest()

    def signature(self):
        return self._sig.hexdigest()[:16]
