"""Choice source: the single origin of every decision of a simulated run.

Two recorded streams:

* ``plan``  - workload / configuration / fault-plan draws, a dense list of ints;
* ``sched`` - scheduling decisions, a sparse dict {decision number: index into the
  canonical option list}; index 0 always means "keep running the current task" (or, when
  the current task cannot run, the option with the lowest id).

In *record* mode the values come from two ``random.Random`` instances derived from the run
seed.  In *replay* mode they come from the recorded streams; a stream that runs dry yields
0, and a value that is out of range for the draw is reduced modulo the range.  Nothing in
here reads a clock and logging never draws.
"""
import hashlib
import random


def derive_seed(*parts) -> int:
    h = hashlib.sha256(("|".join(str(p) for p in parts)).encode()).digest()
    return int.from_bytes(h[:8], "big")


class Choice:
    def __init__(self, seed: int, replay=None):
        self.seed = seed
        self.replaying = replay is not None
        self._plan_rng = random.Random(derive_seed(seed, "plan"))
        self._sched_rng = random.Random(derive_seed(seed, "sched"))
        self.plan = []          # recorded values (this run)
        self.plan_labels = []
        self.sched = {}         # decision number -> chosen index (non-zero only)
        self.sched_n = 0        # number of scheduling decisions taken so far
        if replay is not None:
            self._r_plan = list(replay.get("plan", []))
            self._r_sched = {int(k): int(v) for k, v in dict(replay.get("sched", {})).items()}
        self._plan_pos = 0

    # ------------------------------------------------------------------ plan stream
    def draw(self, n: int, label: str = "") -> int:
        """An int in [0, n). 0 is by convention the simplest value."""
        if n <= 1:
            v = 0
            # still recorded, so that the stream position does not depend on n
        if self.replaying:
            v = self._r_plan[self._plan_pos] if self._plan_pos < len(self._r_plan) else 0
            v = v % n if n > 0 else 0
        else:
            v = self._plan_rng.randrange(n) if n > 1 else 0
        self._plan_pos += 1
        self.plan.append(v)
        self.plan_labels.append(label)
        return v

    def chance(self, num: int, den: int, label: str = "") -> bool:
        """True with probability num/den. Recorded so that 0 means False."""
        v = self.draw(den, label)
        # map: values >= den-num are True, so that 0 (the simplest) is False
        return v >= den - num

    def pick(self, seq, label: str = ""):
        return seq[self.draw(len(seq), label)]

    # ------------------------------------------------------------------ sched stream
    def sched_rng(self) -> random.Random:
        return self._sched_rng

    def decide(self, n_options: int, strategy_pick) -> int:
        """One scheduling decision among n_options (>= 2) options.

        strategy_pick() -> index is consulted only in record mode."""
        k = self.sched_n
        self.sched_n += 1
        if self.replaying:
            v = self._r_sched.get(k, 0)
            if v >= n_options:
                v = v % n_options
        else:
            v = strategy_pick()
        if v:
            self.sched[k] = v
        return v

    def streams(self):
        return {"plan": list(self.plan), "sched": {str(k): v for k, v in sorted(self.sched.items())}}
