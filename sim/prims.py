"""Simulated multiprocessing / threading primitives for engine A.

Every operation is: one yield point *before* it takes effect, then the effect atomically
(one manager request at a time / one kernel call).  An operation that cannot proceed parks
the task with a predicate and retries when scheduled.  Semantics follow CPython 3.12's
multiprocessing (see sim/conformance.py for the comparison against the real objects).
"""
import copy
import pickle
import queue as _queue

from .kernel import InternalEvent


class _KernelObject:
    """Shared between simulated processes by identity (fork-like copy keeps the reference)."""

    def __deepcopy__(self, memo):
        return self

    def __copy__(self):
        return self

    def __reduce__(self):
        # a kernel object inside a queue payload is sent as a handle in reality
        _identity_table[id(self)] = self
        return (_identity_lookup, (id(self),))


_identity_table = {}


def _identity_lookup(i):
    return _identity_table[i]


class SimManagerClosed(ConnectionRefusedError):
    pass


class SimUnsupported(Exception):
    """The code under test asked the simulated environment for something it does not model.  This is a
    limit of the harness, never a verdict about the code: the run ends as a harness error."""


# ----------------------------------------------------------------------------------------

class SimManager(_KernelObject):
    def __init__(self, kernel, name="manager"):
        self.k = kernel
        self.name = name
        self.closed = False
        self.objects = []

    def __enter__(self):
        return self

    def __exit__(self, *a):
        self.k.switch(f"{self.name}.shutdown", sync=True)
        self.closed = True

    shutdown = __exit__

    def Queue(self, maxsize=0):
        q = SimManagerQueue(self.k, self, maxsize, f"mq{len(self.objects)}")
        self.objects.append(q)
        return q

    def list(self, init=()):
        l = SimManagerList(self.k, self, init, f"ml{len(self.objects)}")
        self.objects.append(l)
        return l

    def _check(self):
        if self.closed:
            raise SimManagerClosed("manager has been shut down")

    # proxies of synchronisation objects behave like the plain ones, one request at a time
    def Lock(self):
        return SimLock(self.k, f"{self.name}.lock{len(self.objects)}")

    def RLock(self):
        return SimRLock(self.k, f"{self.name}.rlock{len(self.objects)}")

    def Event(self):
        return SimEvent(self.k, f"{self.name}.event{len(self.objects)}")

    def Value(self, typecode, value, lock=True):
        return SimValue(self.k, typecode, value, f"{self.name}.value{len(self.objects)}")

    def __getattr__(self, name):
        if name.startswith("__"):
            raise AttributeError(name)
        raise SimUnsupported(f"the simulated manager has no '{name}'")


class SimManagerQueue(_KernelObject):
    """queue.Queue behind a manager proxy."""

    def __init__(self, kernel, manager, maxsize, name):
        self.k = kernel
        self.m = manager
        self.maxsize = maxsize if maxsize is not None else 0
        self.name = name
        self.role = name
        self.items = []
        self.put_log = []      # (step, task name, payload) for oracles
        self.get_log = []
        self.blocked_puts = {}  # task -> (pickled item, item): requests the manager has received and is waiting on
        self.orphan_puts = []   # ... whose client process was killed meanwhile: the server still completes them

    def _full(self):
        return 0 < self.maxsize <= len(self.items)

    def _complete_orphans(self):
        # requests of killed clients are completed by the manager as soon as there is room
        for t in [t for t in self.blocked_puts if getattr(t, "killed", False)]:
            self.orphan_puts.append(self.blocked_puts.pop(t))
        while self.orphan_puts and not self._full():
            data, item = self.orphan_puts.pop(0)
            self.items.append(data)
            self.put_log.append((self.k.step, "manager(orphan)", item))

    def put(self, item, block=True, timeout=None):
        k = self.k
        k.switch(f"{self.role}.put", sync=True)
        self.m._check()
        data = pickle.dumps(item)
        if not block or (timeout is not None and timeout <= 0):
            if self._full():
                raise _queue.Full
        else:
            while self._full():
                if timeout is not None:
                    if not k.timed_block(lambda: not self._full() or self.m.closed, (self.role, "put")):
                        raise _queue.Full
                else:
                    self.blocked_puts[k.current] = (data, item)
                    try:
                        k.block(lambda: not self._full() or self.m.closed, (self.role, "put"))
                    finally:
                        self.blocked_puts.pop(k.current, None)
                self.m._check()
        self.items.append(data)
        self.put_log.append((k.step, k.current.name, item))

    def put_nowait(self, item):
        return self.put(item, False)

    def get(self, block=True, timeout=None):
        k = self.k
        k.switch(f"{self.role}.get", sync=True)
        self.m._check()
        self._complete_orphans()
        if not block or (timeout is not None and timeout <= 0):
            if not self.items:
                raise _queue.Empty
        else:
            while not self.items:
                if timeout is not None:
                    if not k.timed_block(lambda: bool(self.items) or self.m.closed, (self.role, "get")):
                        raise _queue.Empty
                else:
                    k.block(lambda: bool(self.items) or self.m.closed, (self.role, "get"))
                self.m._check()
        item = pickle.loads(self.items.pop(0))
        self.get_log.append((k.step, k.current.name, item))
        self._complete_orphans()
        return item

    def get_nowait(self):
        return self.get(False)

    def qsize(self):
        self.k.switch(f"{self.role}.qsize", sync=True)
        self.m._check()
        return len(self.items)

    def empty(self):
        self.k.switch(f"{self.role}.empty", sync=True)
        self.m._check()
        return not self.items

    def full(self):
        self.k.switch(f"{self.role}.full", sync=True)
        self.m._check()
        return self._full()

    # not part of the proxy interface: used by oracles only (no yield)
    def peek_all(self):
        return [pickle.loads(d) for d in self.items]


class SimManagerList(_KernelObject):
    """list behind a ListProxy: every method call is one atomic request; iteration is
    repeated __getitem__ until IndexError (BaseListProxy has no __iter__)."""

    def __init__(self, kernel, manager, init, name):
        self.k = kernel
        self.m = manager
        self.name = name
        self.role = name
        self.data = [pickle.loads(pickle.dumps(x)) for x in init]

    def _op(self, op):
        self.k.switch(f"{self.role}.{op}", sync=True)
        self.m._check()

    @staticmethod
    def _v(x):
        return pickle.loads(pickle.dumps(x))

    def append(self, x):
        self._op("append")
        self.data.append(self._v(x))

    def extend(self, xs):
        xs = list(xs)
        self._op("extend")
        self.data.extend(self._v(xs))

    def remove(self, x):
        self._op("remove")
        self.data.remove(x)

    def pop(self, *a):
        self._op("pop")
        return self._v(self.data.pop(*a))

    def insert(self, i, x):
        self._op("insert")
        self.data.insert(i, self._v(x))

    def index(self, *a):
        self._op("index")
        return self.data.index(*a)

    def count(self, x):
        self._op("count")
        return self.data.count(x)

    def reverse(self):
        self._op("reverse")
        self.data.reverse()

    def sort(self, *a, **kw):
        self._op("sort")
        self.data.sort(*a, **kw)

    def __len__(self):
        self._op("len")
        return len(self.data)

    def __getitem__(self, i):
        self._op("getitem")
        return self._v(self.data[i])

    def __setitem__(self, i, v):
        self._op("setitem")
        self.data[i] = self._v(v)

    def __delitem__(self, i):
        self._op("delitem")
        del self.data[i]

    def __contains__(self, x):
        self._op("contains")
        return x in self.data

    def __iadd__(self, xs):
        self.extend(xs)
        return self

    def __iter__(self):
        # what Python does for an object with __getitem__ and no __iter__
        i = 0
        while True:
            try:
                v = self[i]
            except IndexError:
                return
            yield v
            i += 1

    def __repr__(self):
        return f"<SimManagerList {self.data!r}>"

    def snapshot(self):
        return list(self.data)


# ----------------------------------------------------------------------------------------

class SimLock(_KernelObject):
    """multiprocessing.Lock: non recursive, may be released by anyone."""

    def __init__(self, kernel, name="lock"):
        self.k = kernel
        self.role = name
        self.held = False
        self.holder = None

    def acquire(self, block=True, timeout=None):
        k = self.k
        k.switch(f"{self.role}.acquire", sync=True)
        if self.held:
            if not block:
                return False
            while self.held:
                if timeout is not None:
                    if not k.timed_block(lambda: not self.held, (self.role, "acquire")):
                        return False
                else:
                    k.block(lambda: not self.held, (self.role, "acquire"))
        self.held = True
        self.holder = k.current
        return True

    def release(self):
        self.k.switch(f"{self.role}.release", sync=True)
        if not self.held:
            raise ValueError("semaphore or lock released too many times")
        self.held = False
        self.holder = None

    def locked(self):
        return self.held

    def __enter__(self):
        return self.acquire()

    def __exit__(self, *a):
        self.release()


class SimRLock(_KernelObject):
    """multiprocessing.RLock: recursive, owner = (process, thread) = one task."""

    def __init__(self, kernel, name="rlock"):
        self.k = kernel
        self.role = name
        self.owner = None
        self.count = 0

    def acquire(self, block=True, timeout=None):
        k = self.k
        k.switch(f"{self.role}.acquire", sync=True)
        me = k.current
        if self.owner is me:
            self.count += 1
            return True
        if self.owner is not None:
            if not block:
                return False
            while self.owner is not None:
                if timeout is not None:
                    if not k.timed_block(lambda: self.owner is None, (self.role, "acquire")):
                        return False
                else:
                    k.block(lambda: self.owner is None, (self.role, "acquire"))
        self.owner = me
        self.count = 1
        return True

    def release(self):
        self.k.switch(f"{self.role}.release", sync=True)
        if self.owner is not self.k.current:
            raise AssertionError("attempt to release recursive lock not owned by thread")
        self.count -= 1
        if self.count == 0:
            self.owner = None

    def __enter__(self):
        return self.acquire()

    def __exit__(self, *a):
        self.release()


class SimThreadLock(SimLock):
    """threading.Lock of the code under test: private to a process.  A fork copies it IN ITS CURRENT STATE - a lock
    held by another thread of the parent stays locked for ever in the child."""

    def __deepcopy__(self, memo):
        new = SimThreadLock(self.k, self.role)
        new.held = self.held
        new.holder = None
        return new


class SimThreadRLock(SimRLock):
    def __deepcopy__(self, memo):
        new = SimThreadRLock(self.k, self.role)
        if self.owner is not None and self.owner is not self.k.current:
            new.owner = self.owner      # a thread that does not exist in the child: never released
            new.count = self.count
        return new


class SimThreadEvent(_KernelObject):
    pass


class SimCondition(_KernelObject):
    """threading.Condition over a simulated (R)Lock: wait() releases the lock, parks the caller until it is notified
    (or, with a timeout, until the timeout fires - which the kernel allows only when nothing else can run), and takes
    the lock again; notify(n) wakes the n longest-waiting callers. Spurious wake-ups are not generated: code that is
    correct only with them would be wrong anyway, code that is correct without them is what CPython gives."""

    def __init__(self, kernel, name, lock=None):
        self.k = kernel
        self.role = name
        self._lock = lock if lock is not None else SimThreadRLock(kernel, name + ".lock")
        self._waiters = []      # tokens of parked callers, oldest first; a notified token is removed

    def acquire(self, *a, **kw):
        return self._lock.acquire(*a, **kw)

    def release(self):
        return self._lock.release()

    def __enter__(self):
        return self._lock.__enter__()

    def __exit__(self, *a):
        return self._lock.__exit__(*a)

    def _owned(self):
        if hasattr(self._lock, "owner"):
            return self._lock.owner is self.k.current
        return bool(getattr(self._lock, "held", True))

    def wait(self, timeout=None):
        k = self.k
        if not self._owned():
            raise RuntimeError("cannot wait on un-acquired lock")
        k.switch(f"{self.role}.wait", sync=True)
        token = object()
        self._waiters.append(token)
        # release completely (an RLock may be held several times), remember the depth
        depth = getattr(self._lock, "count", 1) or 1
        for _ in range(depth):
            self._lock.release()
        notified = lambda: not any(t is token for t in self._waiters)  # noqa: E731
        if timeout is None:
            k.block(notified, (self.role, "wait"))
            ok = True
        else:
            ok = k.timed_block(notified, (self.role, "wait")) if timeout > 0 else notified()
            if not ok:
                self._waiters[:] = [t for t in self._waiters if t is not token]
        for _ in range(depth):
            self._lock.acquire()
        return ok

    def wait_for(self, predicate, timeout=None):
        result = predicate()
        while not result:
            if not self.wait(timeout) and timeout is not None:
                return predicate()
            result = predicate()
        return result

    def notify(self, n=1):
        if not self._owned():
            raise RuntimeError("cannot notify on un-acquired lock")
        self.k.switch(f"{self.role}.notify", sync=True)
        del self._waiters[:n]

    def notify_all(self):
        self.notify(len(self._waiters))

    notifyAll = notify_all

    def __deepcopy__(self, memo):
        # a fork: the child has the lock in its current state and none of the parent's waiting threads
        return SimCondition(self.k, self.role, copy.deepcopy(self._lock, memo))


class SimEvent(_KernelObject):
    def __init__(self, kernel, name="event"):
        self.k = kernel
        self.role = name
        self.flag = False

    def is_set(self):
        self.k.switch(f"{self.role}.is_set", sync=True)
        return self.flag

    def set(self):
        self.k.switch(f"{self.role}.set", sync=True)
        self.flag = True

    def clear(self):
        self.k.switch(f"{self.role}.clear", sync=True)
        self.flag = False

    def wait(self, timeout=None):
        k = self.k
        k.switch(f"{self.role}.wait", sync=True)
        while not self.flag:
            if timeout is not None:
                if timeout <= 0:
                    return False
                return k.timed_block(lambda: self.flag, (self.role, "wait"))
            k.block(lambda: self.flag, (self.role, "wait"))
        return True


class SimValue(_KernelObject):
    """multiprocessing.Value: read and write of .value are separate atomic steps."""

    def __init__(self, kernel, typecode, value, name="value"):
        self.k = kernel
        self.role = name
        self._v = value
        self._lock = SimRLock(kernel, name + ".lock")

    @property
    def value(self):
        self.k.switch(f"{self.role}.read", sync=True)
        return self._v

    @value.setter
    def value(self, v):
        self.k.switch(f"{self.role}.write", sync=True)
        self._v = v

    def get_lock(self):
        return self._lock

    def peek(self):
        return self._v


# ----------------------------------------------------------------------------------------

class _Feeder(InternalEvent):
    def __init__(self, q, proc, eid):
        self.q = q
        self.proc = proc
        self.id = eid
        self.name = f"{q.role}.feed[p{proc}]"
        self.prio = 0

    def enabled(self):
        buf = self.q.buffers.get(self.proc)
        if not buf:
            return False
        cap = self.q.pipe_capacity
        # capacity 0 = items larger than the pipe: a feeder thread simply waits for the reader, one item in flight
        return cap is None or len(self.q.pipe) < max(1, cap)

    def fire(self):
        self.q.pipe.append(self.q.buffers[self.proc].pop(0))


class SimPipeQueue(_KernelObject):
    """multiprocessing.Queue: put = semaphore + append to the calling process's buffer; a
    per-process feeder (internal event) moves items into the pipe; items of one producer stay
    FIFO, producers interleave arbitrarily; get(False) raises Empty while items are still in
    flight; qsize counts in-flight items too.  delay=False makes the feeder step part of the
    put (no in-flight window)."""

    def __init__(self, kernel, maxsize=0, name="pq", delay=True, pipe_capacity=None):
        self.k = kernel
        self.role = name
        self.maxsize = maxsize if maxsize and maxsize > 0 else None
        self.count = 0               # items put and not yet got (the bounded semaphore)
        self.buffers = {}            # proc id -> list of pickled items
        self.pipe = []
        self.delay = delay
        self.pipe_capacity = pipe_capacity
        self.sync_put = False        # True for SimpleQueue: put() writes into the pipe itself
        self._writer = None
        self._feeders = {}
        self.put_log = []
        self.get_log = []

    def _feeder_for(self, proc):
        f = self._feeders.get(proc)
        if f is None:
            f = _Feeder(self, proc, len(self.k.internal))
            self._feeders[proc] = f
            self.k.internal.append(f)
        return f

    def put(self, obj, block=True, timeout=None):
        k = self.k
        k.switch(f"{self.role}.put", sync=True)
        if self.maxsize is not None and self.count >= self.maxsize:
            if not block:
                raise _queue.Full
            while self.count >= self.maxsize:
                if timeout is not None:
                    if not k.timed_block(lambda: self.count < self.maxsize, (self.role, "put")):
                        raise _queue.Full
                else:
                    k.block(lambda: self.count < self.maxsize, (self.role, "put"))
        self.count += 1
        data = pickle.dumps(obj)
        proc = k.current.proc
        self.put_log.append((k.step, k.current.name, obj))
        if self.delay:
            self._feeder_for(proc)
            self.buffers.setdefault(proc, []).append(data)
        else:
            if self.sync_put and self.pipe_capacity is not None:
                # SimpleQueue.put(): the caller itself writes into the pipe (under the write lock of the queue) and
                # blocks while the pipe is full. Capacity 0 stands for an item LARGER than the pipe: the write ends
                # only when a reader has taken the item.
                if self._writer is not None or len(self.pipe) >= max(1, self.pipe_capacity):
                    k.probe("synchronous-put-waited-for-pipe-room")
                    k.block(lambda: self._writer is None and len(self.pipe) < max(1, self.pipe_capacity),
                            (self.role, "put-pipe-full"))
                self.pipe.append(data)
                if self.pipe_capacity == 0:
                    self._writer = k.current
                    k.probe("synchronous-put-of-an-item-larger-than-the-pipe")
                    k.block(lambda: not any(d is data for d in self.pipe), (self.role, "put-large-item"))
                    self._writer = None
                return
            self.pipe.append(data)

    def put_nowait(self, obj):
        return self.put(obj, False)

    def get(self, block=True, timeout=None):
        k = self.k
        k.switch(f"{self.role}.get", sync=True)
        if not self.pipe:
            if not block:
                if self.count > 0:
                    k.probe("pipe.get_empty_while_in_flight")
                raise _queue.Empty
            while not self.pipe:
                if timeout is not None:
                    if not k.timed_block(lambda: bool(self.pipe), (self.role, "get")):
                        raise _queue.Empty
                else:
                    k.block(lambda: bool(self.pipe), (self.role, "get"))
        data = self.pipe.pop(0)
        self.count -= 1
        obj = pickle.loads(data)
        self.get_log.append((k.step, k.current.name, obj))
        return obj

    def get_nowait(self):
        return self.get(False)

    def qsize(self):
        self.k.switch(f"{self.role}.qsize", sync=True)
        return self.count

    def empty(self):
        self.k.switch(f"{self.role}.empty", sync=True)
        return not self.pipe

    def full(self):
        self.k.switch(f"{self.role}.full", sync=True)
        return self.maxsize is not None and self.count >= self.maxsize

    def pending_of(self, proc):
        return len(self.buffers.get(proc, ()))

    def peek_all(self):
        out = [pickle.loads(d) for d in self.pipe]
        for p in sorted(self.buffers):
            out.extend(pickle.loads(d) for d in self.buffers[p])
        return out

    def close(self):
        pass

    def join_thread(self):
        pass

    def cancel_join_thread(self):
        pass


# ----------------------------------------------------------------------------------------
# processes

from multiprocessing.process import BaseProcess  # noqa: E402


def _copy_real_lock(lock, memo):
    """A real threading lock inside a process object: the fork copies it in its current state."""
    import _thread
    new = _thread.allocate_lock()
    if lock.locked():
        new.acquire()
    return new


def _copy_real_rlock(lock, memo):
    import threading
    return threading.RLock()


def _copy_text_file(f, memo):
    """An open text file inside a process object: the child of a fork(2) has a descriptor of its own for the SAME
    open file description (one shared position), and user-space buffers of its own. os.dup() gives exactly that
    sharing inside one process; the copy's buffers start empty (the files of the code under test are flushed after
    every write, and an absolute seek precedes every read)."""
    import io
    import os
    if f.closed:
        new = io.StringIO()
        new.close()
        return new
    mode = "r" if f.readable() and not f.writable() else ("r+" if f.readable() else "w")
    return open(os.dup(f.fileno()), mode, encoding=f.encoding, errors=f.errors)


def install_forkable_mmap():
    """mmap.mmap objects inside a process object: the child of a fork has the same mapping and a position pointer of
    its own. The stand-in remembers which file it maps, so that a fork-like copy can map it again."""
    import mmap
    import os
    if getattr(mmap.mmap, "_sim_forkable", False):
        return
    real = mmap.mmap

    class ForkableMmap(real):
        _sim_forkable = True

        def __init__(self, fileno, length, *a, **kw):
            self._sim_path = os.readlink(f"/proc/self/fd/{fileno}") if fileno != -1 else None
            self._sim_args = (a, kw)

        def __deepcopy__(self, memo):
            if self.closed or self._sim_path is None:
                return self
            a, kw = self._sim_args
            ro = kw.get("access") == mmap.ACCESS_READ or kw.get("prot") == mmap.PROT_READ
            with open(self._sim_path, "rb" if ro else "r+b") as f:
                new = ForkableMmap(f.fileno(), len(self), *a, **kw)
            new.seek(self.tell())
            return new

    mmap.mmap = ForkableMmap


def _install_lock_copiers():
    import _thread
    import io
    import threading
    copy._deepcopy_dispatch[_thread.LockType] = _copy_real_lock
    copy._deepcopy_dispatch[type(threading.RLock())] = _copy_real_rlock
    copy._deepcopy_dispatch[io.TextIOWrapper] = _copy_text_file


_install_lock_copiers()


def install_threading_shims(kernel, modules):
    """Give every module under test a simulated `threading` (Lock / RLock / Event), also those that do not import
    it today: a change that adds `import threading` at the top of the module is then still simulated."""
    shim = ThreadingShim(kernel)
    for m in modules:
        m.threading = shim
    return shim


def fork_copy(obj):
    """What a forked child sees of the process object: private copies of plain data,
    the same kernel objects, the same functions."""
    memo = {}
    new = object.__new__(type(obj))
    d = {}
    for key, val in obj.__dict__.items():
        if key in ("_popen", "_parent_pid", "_parent_name", "_identity", "_closed", "_name",
                   "_target", "_args", "_kwargs", "_start_method", "_sentinel"):
            d[key] = val
        elif key == "_config":
            d[key] = dict(val)
        else:
            d[key] = copy.deepcopy(val, memo)
    new.__dict__.update(d)
    return new


class SimPopen:
    """Stands in for multiprocessing.popen_fork.Popen: the 'process' is a kernel task running
    run() of a fork-like copy."""
    method = "sim"

    def __init__(self, kernel, process_obj, queues=()):
        self.k = kernel
        self.returncode = None
        self.pid = 10_000 + len(kernel.tasks)
        self.sentinel = self.pid
        self.proc_id = kernel.new_proc_id()
        self.traceback = None
        parent_obj = getattr(kernel.current, "proc_obj", None)
        if parent_obj is not None and parent_obj._config.get("daemon"):
            # what multiprocessing.Process.start() asserts inside a real daemonic process
            raise AssertionError("daemonic processes are not allowed to have children")
        child = fork_copy(process_obj)
        self.child = child
        role = getattr(process_obj, "sim_role", None) or "worker"
        k = kernel
        k.switch(f"{role}.fork", sync=True)

        def body():
            code = 0
            try:
                child.run()
            except BaseException as e:  # noqa
                import traceback as tb
                code = 1
                self.traceback = tb.format_exc()
                k.task_errors.append((k.current.name, repr(e), self.traceback))
            # multiprocessing.Queue._finalize_join: the process exits only after its
            # feeder buffers have been flushed into the pipe
            me = k.current
            for q in list(self._pipe_queues()):
                while q.pending_of(me.proc):
                    k.block(lambda q=q: not q.pending_of(me.proc), (q.role, "flush-at-exit"))
            self.returncode = code

        self.task = kernel.spawn(body, role, proc=self.proc_id, kind="process")
        self.task.proc_obj = child
        self.task_name = self.task.name

    def _pipe_queues(self):
        for e in self.k.internal:
            if isinstance(e, _Feeder) and e.proc == self.proc_id:
                yield e.q

    def poll(self, flag=None):
        if self.task.done:
            return self.returncode if self.returncode is not None else 1
        return None

    def wait(self, timeout=None):
        k = self.k
        k.switch(f"{self.task.role}.join", sync=True)
        while not self.task.done:
            if timeout is not None:
                if not k.timed_block(lambda: self.task.done, (self.task.role, "join")):
                    break
            else:
                k.block(lambda: self.task.done, (self.task.role, "join"))
        return self.poll()

    def terminate(self):
        """SIGTERM: the process dies where it stands, no finally block runs.  Its thread stays parked for
        the rest of the run (the whole run is a private child process)."""
        t = self.task
        if t.done or t is self.k.current:
            return
        self.k.switch(f"{t.role}.terminate", sync=True)
        if not t.done:
            t.done = True
            t.pred = None
            t.killed = True
            self.returncode = -15
            self.k.fault("process-terminated")

    kill = terminate

    def close(self):
        pass


def make_process_class(kernel):
    class SimProcess(BaseProcess):
        _start_method = "sim"

        @staticmethod
        def _Popen(process_obj):
            return SimPopen(kernel, process_obj)

    return SimProcess


def make_popen(kernel):
    def _Popen(process_obj):
        return SimPopen(kernel, process_obj)
    return staticmethod(_Popen)


class SimContext:
    """Stands in for a multiprocessing context (FunctorPool(..., context=SimContext))."""

    def __init__(self, kernel, pipe_delay=True, pipe_capacity=None):
        self.k = kernel
        self.Process = make_process_class(kernel)
        self.pipe_delay = pipe_delay
        self.pipe_capacity = pipe_capacity
        self.managers = []
        self.pipe_queues = []
        self.flags = []
        self._n = {}
        kernel.state_probes.append(self._abstract)

    def _abstract(self):
        """Abstract state of the simulated IPC objects: queue lengths (capped at 3), lock / event flags."""
        out = []
        for m in self.managers:
            for o in m.objects:
                if isinstance(o, SimManagerQueue):
                    out.append(min(3, len(o.items)))
                else:
                    out.append(min(3, len(o.data)))
        for q in self.pipe_queues:
            out.append((min(3, len(q.pipe)), min(3, q.count)))
        for f in self.flags:
            out.append(f())
        return tuple(out)

    def _name(self, base):
        n = self._n.get(base, 0)
        self._n[base] = n + 1
        return f"{base}{n}"

    def Manager(self):
        m = SimManager(self.k, self._name("manager"))
        self.managers.append(m)
        return m

    def Queue(self, maxsize=0):
        q = SimPipeQueue(self.k, maxsize, self._name("pq"), self.pipe_delay, self.pipe_capacity)
        self.pipe_queues.append(q)
        return q

    def SimpleQueue(self):
        # put() writes into the pipe synchronously (no feeder thread): no in-flight window
        q = SimPipeQueue(self.k, 0, self._name("sq"), False, self.pipe_capacity)
        q.sync_put = True
        self.pipe_queues.append(q)
        return q

    def Lock(self):
        l = SimLock(self.k, self._name("lock"))
        self.flags.append(lambda: l.held)
        return l

    def RLock(self):
        l = SimRLock(self.k, self._name("rlock"))
        self.flags.append(lambda: l.count)
        return l

    def Event(self):
        e = SimEvent(self.k, self._name("event"))
        if len(self.flags) < 24:
            self.flags.append(lambda: e.flag)
        return e

    def Value(self, typecode, value=0, lock=True):
        return SimValue(self.k, typecode, value, self._name("value"))

    def get_context(self, method=None):
        return self

    def __getattr__(self, name):
        if name.startswith("__"):
            raise AttributeError(name)
        raise SimUnsupported(f"the simulated multiprocessing context has no '{name}'")

    def cpu_count(self):
        return 4


class ThreadingShim:
    """Replacement for the name `threading` inside a module under test: Event() is simulated,
    everything else is the real module."""

    def __init__(self, kernel):
        import threading as _t
        self._t = _t
        self._k = kernel
        self._n = 0

    def Event(self):
        self._n += 1
        return SimEvent(self._k, f"tevent{self._n - 1}")

    def Lock(self):
        self._n += 1
        return SimThreadLock(self._k, f"tlock{self._n - 1}")

    def RLock(self):
        self._n += 1
        return SimThreadRLock(self._k, f"trlock{self._n - 1}")

    def Condition(self, lock=None):
        self._n += 1
        return SimCondition(self._k, f"tcond{self._n - 1}", lock)

    def __getattr__(self, name):
        if name in ("Semaphore", "BoundedSemaphore", "Barrier", "Timer"):
            # a real blocking primitive would block the baton holder and wedge the simulation
            raise SimUnsupported(f"threading.{name} is not modelled by the simulator")
        return getattr(self._t, name)
